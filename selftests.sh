#!/bin/bash
# Self-tests of the simulator (not registered checks; see DESIGN.md 3.7).
set -u
ROOT="$(cd "$(dirname "$0")" && pwd)"
export VERIF_ROOT="$ROOT" CARGO_NET_OFFLINE=true
W="$ROOT/work/selftest"; mkdir -p "$W"
build_on()  { RUSTFLAGS="--cfg rust_dsymbols_verif" cargo build --release --offline --manifest-path "$ROOT/sim/Cargo.toml" --target-dir "$ROOT/sim/target" >"$W/build-on.log" 2>&1; }
build_off() { RUSTFLAGS="" cargo build --release --offline --manifest-path "$ROOT/sim/Cargo.toml" --target-dir "$ROOT/sim/target-off" >"$W/build-off.log" 2>&1; }
ON="$ROOT/sim/target/release/dsym_sim"; OFF="$ROOT/sim/target-off/release/dsym_sim"
COUNT="${SELFTEST_COUNT:-2000}"

case "${1:-}" in
--selftest-determinism)
  build_on || { echo "harness error: build"; exit 2; }
  fail=0
  for prop in C16 C17; do
    ref=""
    for rep in 1 2; do for w in 1 4 16; do
      f="$W/det-$prop-w$w-r$rep.log"
      "$ON" dump-logs $prop quick $w $COUNT "$f" >/dev/null || { echo "dump failed"; exit 2; }
      h=$(sha256sum "$f" | cut -d' ' -f1)
      echo "$prop workers=$w rep=$rep lines=$(wc -l <"$f") sha256=$h"
      if [ -z "$ref" ]; then ref=$h; elif [ "$ref" != "$h" ]; then echo "NONDETERMINISM: $f differs"; fail=1; fi
    done; done
    # another VERIF_SEED must give different logs (the seed really decides)
    VERIF_SEED=2 "$ON" dump-logs $prop quick 16 $COUNT "$W/det-$prop-seed2.log" >/dev/null
    if cmp -s "$W/det-$prop-seed2.log" "$W/det-$prop-w16-r1.log"; then echo "SEED HAS NO EFFECT"; fail=1; fi
  done
  [ $fail = 0 ] && echo "determinism self-test passed" || { echo "determinism self-test FAILED"; exit 1; }
  ;;
--selftest-transparency)
  build_on && build_off || { echo "harness error: build"; exit 2; }
  fail=0
  for prop in C16 C17; do
    "$OFF" dump-logs $prop quick 16 $COUNT "$W/tr-$prop-off.log" --outcomes-only --no-steer >/dev/null
    "$ON"  dump-logs $prop quick 16 $COUNT "$W/tr-$prop-on.log" --outcomes-only --no-steer >/dev/null
    "$ON"  dump-logs $prop quick 16 $COUNT "$W/tr-$prop-on-rec.log" --outcomes-only --no-steer --rec-states >/dev/null
    for v in on on-rec; do
      if cmp -s "$W/tr-$prop-off.log" "$W/tr-$prop-$v.log"; then echo "$prop: hook build ($v) == hook-less build on $(wc -l <"$W/tr-$prop-off.log") runs"; else echo "$prop: hook build ($v) DIFFERS from hook-less build"; diff "$W/tr-$prop-off.log" "$W/tr-$prop-$v.log" | head -5; fail=1; fi
    done
  done
  [ $fail = 0 ] && echo "hook transparency self-test passed" || { echo "hook transparency self-test FAILED"; exit 1; }
  ;;
--selftest-sensitivity)
  exec python3 "$ROOT/selftest/sensitivity.py" "${@:2}"
  ;;
--selftest-fidelity)
  exec python3 "$ROOT/selftest/fidelity.py" "${@:2}"
  ;;
*) echo "usage: $0 --selftest-determinism|--selftest-transparency|--selftest-sensitivity|--selftest-fidelity"; exit 2;;
esac
