//! Worker pool: the coordinator feeds run specifications to W worker
//! *processes* (this same binary in `worker` mode) over pipes, one spec at a
//! time, and reads one record per spec. A worker that dies (abort, stack
//! overflow) or exceeds the per-run wall budget is attributed to the spec it
//! was executing and replaced. Which worker executes which spec is
//! irrelevant: a record is a function of its spec only.

use std::io::{BufRead, BufReader, Write};
use std::process::{Child, ChildStdin, ChildStdout, Command, Stdio};
use std::sync::atomic::{AtomicBool, AtomicU64, AtomicUsize, Ordering};
use std::sync::{Arc, Mutex};
use std::time::{Duration, Instant};

use crate::exec::{Executor, Record};
use crate::spec::Spec;

pub fn worker_main(thorough: bool) {
    let stdin = std::io::stdin();
    let stdout = std::io::stdout();
    let mut exec = Executor::new(thorough);
    exec.on_run_phase = Some(Box::new(|begin| {
        let mut out = std::io::stdout().lock();
        let _ = writeln!(out, "{}", if begin { "P" } else { "Q" });
        let _ = out.flush();
    }));
    for line in stdin.lock().lines() {
        let line = match line {
            Ok(l) => l,
            Err(_) => break,
        };
        if line.trim().is_empty() {
            continue;
        }
        let rec = match serde_json::from_str::<serde_json::Value>(&line).map_err(|e| e.to_string()).and_then(|v| Spec::from_json(&v)) {
            Ok(spec) => exec.run(&spec),
            Err(e) => Record { status: "excluded".into(), excluded_reason: format!("harness: bad spec: {}", e), ..Default::default() },
        };
        let mut out = stdout.lock();
        let _ = writeln!(out, "{}", rec.to_json());
        let _ = out.flush();
    }
}

/// CPU time (user + system, all threads) consumed so far by a child process,
/// in milliseconds, from /proc/<pid>/stat. The run budget is measured in CPU
/// time of the worker, not in wall time: a VM pause, a snapshot of the sandbox
/// or a heavily loaded machine must never look like a hanging run (this
/// happened once: a `timeout` alarm on a 9 ms run while the sandbox was being
/// copied). The library cannot block without burning CPU (no I/O, no locks,
/// no sleeps), so a hang is a busy loop and CPU time sees it.
fn child_cpu_ms(pid: u32) -> Option<u64> {
    let stat = std::fs::read_to_string(format!("/proc/{}/stat", pid)).ok()?;
    let rest = &stat[stat.rfind(')')? + 1..];
    let f: Vec<&str> = rest.split_whitespace().collect();
    let utime: u64 = f.get(11)?.parse().ok()?;
    let stime: u64 = f.get(12)?.parse().ok()?;
    // clock ticks: 100 per second on Linux (USER_HZ)
    Some((utime + stime) * 10)
}

const RUN_FLAG: u64 = 1 << 63;
/// wall-clock backstop per spec (something that does not burn CPU)
const WALL_BACKSTOP_MS: u64 = 30 * 60 * 1000;

struct Worker {
    child: Arc<Mutex<Child>>,
    stdin: ChildStdin,
    stdout: BufReader<ChildStdout>,
}

fn spawn_worker(thorough: bool) -> Worker {
    let exe = std::env::current_exe().expect("current_exe");
    let mut cmd = Command::new(exe);
    cmd.arg("worker");
    if thorough {
        cmd.arg("--thorough");
    }
    let mut child = cmd.stdin(Stdio::piped()).stdout(Stdio::piped()).stderr(Stdio::null()).spawn().expect("spawn worker");
    let stdin = child.stdin.take().unwrap();
    let stdout = BufReader::new(child.stdout.take().unwrap());
    Worker { child: Arc::new(Mutex::new(child)), stdin, stdout }
}

pub struct PoolConfig {
    pub workers: usize,
    pub chunk: usize,
    pub run_budget: Duration,
    pub deadline: Option<Instant>,
    pub thorough: bool,
    /// start a fresh worker process for every spec (history oracle, replays)
    pub fresh_per_spec: bool,
}

#[derive(Default)]
pub struct PoolStats {
    pub issued: usize,
    pub completed: usize,
    pub worker_deaths: usize,
    pub timeouts: usize,
    pub stopped_early: bool,
    pub hit_deadline: bool,
}

/// Run all specs; `sink(position, record, history)` is called (serialised) for
/// every finished run and returns `false` to stop issuing further runs.
/// `history` = the positions the same worker PROCESS executed before this one
/// (its hidden input, should the library ever keep state between calls).
pub fn run_specs<F>(specs: &[Spec], cfg: &PoolConfig, sink: F) -> PoolStats
where
    F: FnMut(usize, Record, &[usize]) -> bool + Send,
{
    let n = specs.len();
    let stop = AtomicBool::new(false);
    let hit_deadline = AtomicBool::new(false);
    // Determinism of the search itself: (i) chunks are assigned to workers
    // round-robin, not first-come-first-served, so which runs share a worker
    // process - the hidden input of a library that kept process-wide state -
    // is a function of the plan and the worker count, not of timing; (ii)
    // records are handed to the sink in plan order (reorder buffer), so the
    // first violation reported is the same in every execution.
    struct Reorder<F> {
        next_pos: usize,
        pending: std::collections::BTreeMap<usize, (Record, usize, usize, usize)>,
        sink: F,
    }
    let sink = Mutex::new(Reorder { next_pos: 0, pending: std::collections::BTreeMap::new(), sink });
    let issued = AtomicUsize::new(0);
    let completed = AtomicUsize::new(0);
    let deaths = AtomicUsize::new(0);
    let timeouts = AtomicUsize::new(0);
    let t0 = Instant::now();
    let workers = cfg.workers.max(1).min(n.max(1));
    // positions each worker slot has executed (never cleared; a record's
    // history is the slice [base..len] belonging to its process)
    let hists: Vec<Mutex<Vec<usize>>> = (0..workers).map(|_| Mutex::new(vec![])).collect();
    // per worker: (busy since ms+1 or 0, child handle) for the watchdog
    let busy: Vec<AtomicU64> = (0..workers).map(|_| AtomicU64::new(0)).collect();
    let killed: Vec<AtomicBool> = (0..workers).map(|_| AtomicBool::new(false)).collect();
    // which phase the worker is in: the run budget applies to the run-thread
    // phase only; building inputs and evaluating oracles get a separate,
    // generous budget (a slow builder must never become a `timeout` alarm)
    // busy[w]: 0 = idle, else (child CPU ms at the start of the current phase + 1)
    // with RUN_FLAG set while the run thread is active - one atomic, so that the
    // watchdog can never combine the clock of one phase with the budget of another
    let builder_budget_ms: u64 = 120_000;
    let pids: Vec<AtomicU64> = (0..workers).map(|_| AtomicU64::new(0)).collect();
    let wall_start: Vec<AtomicU64> = (0..workers).map(|_| AtomicU64::new(0)).collect();
    let children: Vec<Mutex<Option<Arc<Mutex<Child>>>>> = (0..workers).map(|_| Mutex::new(None)).collect();
    let done = AtomicBool::new(false);

    std::thread::scope(|scope| {
        // watchdog
        scope.spawn(|| {
            while !done.load(Ordering::SeqCst) {
                std::thread::sleep(Duration::from_millis(100));
                let now = t0.elapsed().as_millis() as u64 + 1;
                for w in 0..workers {
                    let v = busy[w].load(Ordering::SeqCst);
                    if v == 0 {
                        continue;
                    }
                    let running = v & RUN_FLAG != 0;
                    let since = v & !RUN_FLAG;
                    let budget = if running { cfg.run_budget.as_millis() as u64 } else { builder_budget_ms };
                    let pid = pids[w].load(Ordering::SeqCst) as u32;
                    let cpu_over = match child_cpu_ms(pid) {
                        Some(cpu) => (cpu + 1).saturating_sub(since) > budget,
                        None => false,
                    };
                    let ws = wall_start[w].load(Ordering::SeqCst);
                    let wall_over = ws != 0 && now.saturating_sub(ws) > WALL_BACKSTOP_MS;
                    if (cpu_over || wall_over) && busy[w].load(Ordering::SeqCst) == v {
                        if let Some(ch) = children[w].lock().unwrap().as_ref() {
                            killed[w].store(true, Ordering::SeqCst);
                            let _ = ch.lock().unwrap().kill();
                        }
                        busy[w].store(0, Ordering::SeqCst);
                    }
                }
                if let Some(dl) = cfg.deadline {
                    if Instant::now() > dl && !stop.load(Ordering::SeqCst) {
                        hit_deadline.store(true, Ordering::SeqCst);
                        stop.store(true, Ordering::SeqCst);
                    }
                }
            }
        });
        let mut handles = vec![];
        for w in 0..workers {
            let (stop, sink, busy, killed, children, pids, wall_start, hists) = (&stop, &sink, &busy, &killed, &children, &pids, &wall_start, &hists);
            let (issued, completed, deaths, timeouts) = (&issued, &completed, &deaths, &timeouts);
            handles.push(scope.spawn(move || {
                let mut worker = spawn_worker(cfg.thorough);
                *children[w].lock().unwrap() = Some(worker.child.clone());
                let mut pid = worker.child.lock().unwrap().id();
                pids[w].store(pid as u64, Ordering::SeqCst);
                let cpu_now = |pid: u32| child_cpu_ms(pid).unwrap_or(0) + 1;
                // hists[w][hist_base..] = positions the current worker process has executed
                let mut hist_base: usize = 0;
                let mut round: usize = 0;
                'outer: loop {
                    if stop.load(Ordering::SeqCst) {
                        break;
                    }
                    let start = (round * workers + w) * cfg.chunk;
                    round += 1;
                    if start >= n {
                        break;
                    }
                    for pos in start..(start + cfg.chunk).min(n) {
                        if stop.load(Ordering::SeqCst) {
                            break 'outer;
                        }
                        let spec = &specs[pos];
                        issued.fetch_add(1, Ordering::SeqCst);
                        let line = spec.to_json().to_string();
                        wall_start[w].store(t0.elapsed().as_millis() as u64 + 1, Ordering::SeqCst);
                        busy[w].store(cpu_now(pid), Ordering::SeqCst);
                        let sent = writeln!(worker.stdin, "{}", line).and_then(|_| worker.stdin.flush());
                        let mut resp = String::new();
                        let mut in_run_phase = false;
                        let got = if sent.is_ok() {
                            loop {
                                resp.clear();
                                let n = worker.stdout.read_line(&mut resp).unwrap_or(0);
                                if n > 0 && resp.trim() == "P" {
                                    in_run_phase = true;
                                    busy[w].store(cpu_now(pid) | RUN_FLAG, Ordering::SeqCst);
                                    continue;
                                }
                                if n > 0 && resp.trim() == "Q" {
                                    in_run_phase = false;
                                    busy[w].store(cpu_now(pid), Ordering::SeqCst);
                                    continue;
                                }
                                break n;
                            }
                        } else {
                            0
                        };
                        busy[w].store(0, Ordering::SeqCst);
                        wall_start[w].store(0, Ordering::SeqCst);
                        let mut respawned = false;
                        let rec = if got == 0 {
                            // worker died while executing this spec
                            let was_killed = killed[w].swap(false, Ordering::SeqCst);
                            let status = worker.child.lock().unwrap().wait().ok();
                            deaths.fetch_add(1, Ordering::SeqCst);
                            let (class, detail) = if was_killed {
                                timeouts.fetch_add(1, Ordering::SeqCst);
                                ("timeout".to_string(), if in_run_phase { format!("run exceeded the budget of {} s CPU time", cfg.run_budget.as_secs()) } else { "builder phase exceeded 120 s CPU time".to_string() })
                            } else {
                                ("abort".to_string(), format!("worker process died: {:?}", status))
                            };
                            worker = spawn_worker(cfg.thorough);
                            *children[w].lock().unwrap() = Some(worker.child.clone());
                            pid = worker.child.lock().unwrap().id();
                            pids[w].store(pid as u64, Ordering::SeqCst);
                            respawned = true;
                            if in_run_phase {
                                Record {
                                    idx: spec.idx,
                                    group: spec.group.clone(),
                                    status: "ran".into(),
                                    outcome: class.clone(),
                                    detail: detail.clone(),
                                    failures: vec![(class, detail)],
                                    ..Default::default()
                                }
                            } else {
                                // died while building the input or evaluating
                                // oracles: not a verdict about the operation
                                Record {
                                    idx: spec.idx,
                                    group: spec.group.clone(),
                                    status: "excluded".into(),
                                    excluded_reason: format!("builder_{}: {}", class, detail),
                                    ..Default::default()
                                }
                            }
                        } else {
                            match serde_json::from_str::<serde_json::Value>(&resp) {
                                Ok(v) => Record::from_json(&v),
                                Err(e) => Record {
                                    idx: spec.idx,
                                    group: spec.group.clone(),
                                    status: "excluded".into(),
                                    excluded_reason: format!("harness: unreadable record: {}", e),
                                    ..Default::default()
                                },
                            }
                        };
                        completed.fetch_add(1, Ordering::SeqCst);
                        let len = hists[w].lock().unwrap().len();
                        let mut go_on = true;
                        {
                            let mut ro = sink.lock().unwrap();
                            ro.pending.insert(pos, (rec, w, hist_base, len));
                            loop {
                                let np = ro.next_pos;
                                let (r2, w2, b2, l2) = match ro.pending.remove(&np) {
                                    Some(e) => e,
                                    None => break,
                                };
                                ro.next_pos += 1;
                                let guard = hists[w2].lock().unwrap();
                                if !(ro.sink)(np, r2, &guard[b2..l2]) {
                                    go_on = false;
                                }
                            }
                        }
                        hists[w].lock().unwrap().push(pos);
                        if respawned {
                            // the run that died belongs to the old process; what follows runs in the new one
                            hist_base = len + 1;
                        }
                        if cfg.fresh_per_spec {
                            let old = std::mem::replace(&mut worker, spawn_worker(cfg.thorough));
                            let Worker { child, stdin, stdout } = old;
                            drop(stdin);
                            drop(stdout);
                            let _ = child.lock().unwrap().wait();
                            *children[w].lock().unwrap() = Some(worker.child.clone());
                            pid = worker.child.lock().unwrap().id();
                            pids[w].store(pid as u64, Ordering::SeqCst);
                            hist_base = len + 1;
                        }
                        if !go_on {
                            stop.store(true, Ordering::SeqCst);
                        }
                    }
                }
                drop(worker.stdin);
                let _ = worker.child.lock().unwrap().wait();
            }));
        }
        for h in handles {
            let _ = h.join();
        }
        done.store(true, Ordering::SeqCst);
    });

    PoolStats {
        issued: issued.load(Ordering::SeqCst),
        completed: completed.load(Ordering::SeqCst),
        worker_deaths: deaths.load(Ordering::SeqCst),
        timeouts: timeouts.load(Ordering::SeqCst),
        stopped_early: stop.load(Ordering::SeqCst) && completed.load(Ordering::SeqCst) < n,
        hit_deadline: hit_deadline.load(Ordering::SeqCst),
    }
}

/// Convenience: run a handful of specs and return their records in order.
pub fn run_collect(specs: &[Spec], cfg: &PoolConfig) -> Vec<Option<Record>> {
    let mut out: Vec<Option<Record>> = vec![None; specs.len()];
    {
        let out_ref = &mut out;
        run_specs(specs, cfg, move |pos, rec, _hist| {
            out_ref[pos] = Some(rec);
            true
        });
    }
    out
}
