//! Generated input family G: all complete 3D D-symbols over the D-sets of
//! `DSets::new(3, n)` with branching numbers in {1,2,3,4,6} whose tiles and
//! vertex figures are good spherical orbifolds. The D-set generator of the
//! repository is used as an input builder only: every result is validated
//! by harness code (dsx) before use, and the generated list is committed as
//! corpus/G4.txt so that the workload cannot shrink silently.

use rust_dsymbols::dsets::DSet;
use rust_dsymbols::generators::dset_generators::DSets;

use crate::dsx::{curvature_2d, spherical_2d, Sym};

const VS: [usize; 5] = [1, 2, 3, 4, 6];

pub fn generate(max_size: usize) -> Vec<String> {
    let mut out = vec![];
    for dset in DSets::new(3, max_size) {
        let n = dset.size();
        let mut op = vec![vec![0; n + 1]; 4];
        let mut ok = true;
        for i in 0..=3 {
            for d in 1..=n {
                match dset.op(i, d) {
                    Some(e) if e >= 1 && e <= n => op[i][d] = e,
                    _ => ok = false,
                }
            }
        }
        if !ok {
            continue;
        }
        let base = Sym { n, dim: 3, op, v: vec![vec![1; n + 1]; 3] };
        if base.validate().is_err() || !base.is_connected() {
            continue;
        }
        branchings(&base, &mut out);
    }
    out
}

/// Enumerate all admissible branching assignments of `base` (v in VS).
fn branchings(base: &Sym, out: &mut Vec<String>) {
    // orbit lists in assignment order: (1,2) first (shared by tiles and
    // vertex figures), then (0,1), then (2,3)
    let order = [1usize, 0, 2];
    let mut slots: Vec<(usize, Vec<usize>)> = vec![];
    for &i in &order {
        for orb in base.orbits(&[i, i + 1]) {
            slots.push((i, orb));
        }
    }
    let n12 = base.orbits(&[1, 2]).len();
    let n01 = base.orbits(&[0, 1]).len();
    let mut s = base.clone();
    rec(&mut s, &slots, 0, n12, n12 + n01, out);
}

fn positive_everywhere(s: &Sym, idcs: [usize; 3], full: bool) -> bool {
    for orb in s.orbits(&idcs) {
        let sub = s.subsymbol(&idcs, orb[0]);
        if full {
            if !spherical_2d(&sub) {
                return false;
            }
        } else if curvature_2d(&sub).0 <= 0 {
            return false;
        }
    }
    true
}

fn rec(s: &mut Sym, slots: &[(usize, Vec<usize>)], k: usize, end12: usize, end01: usize, out: &mut Vec<String>) {
    // pruning: unassigned orbits carry v = 1, the curvature maximum
    if k == end01 && !positive_everywhere(s, [0, 1, 2], true) {
        return;
    }
    if k == slots.len() {
        if positive_everywhere(s, [1, 2, 3], true) {
            out.push(s.to_text());
        }
        return;
    }
    if k > 0 && k != end01 {
        let idcs = if k <= end01 { [0, 1, 2] } else { [1, 2, 3] };
        if !positive_everywhere(s, idcs, false) {
            return;
        }
        if k <= end12 && !positive_everywhere(s, [1, 2, 3], false) {
            return;
        }
    }
    let (i, orb) = &slots[k];
    for &v in &VS {
        for &d in orb {
            s.v[*i][d] = v;
        }
        rec(s, slots, k + 1, end12, end01, out);
    }
    for &d in orb {
        s.v[*i][d] = 1;
    }
}
