//! Generated input family G: all complete 3D D-symbols over the D-sets of
//! `DSets::new(3, n)` with branching numbers in {1,2,3,4,6} whose tiles and
//! vertex figures are good spherical orbifolds. The D-set generator of the
//! repository is used as an input builder only: every result is validated
//! by harness code (dsx) before use, and the generated list is committed as
//! corpus/G4.txt so that the workload cannot shrink silently.

use rust_dsymbols::dsets::DSet;
use rust_dsymbols::generators::dset_generators::DSets;

use crate::dsx::{curvature_2d, spherical_2d, Sym};
use crate::prng::SplitMix64;

const VS: [usize; 5] = [1, 2, 3, 4, 6];

pub fn generate(max_size: usize) -> Vec<String> {
    let mut out = vec![];
    for dset in DSets::new(3, max_size) {
        let n = dset.size();
        let mut op = vec![vec![0; n + 1]; 4];
        let mut ok = true;
        for i in 0..=3 {
            for d in 1..=n {
                match dset.op(i, d) {
                    Some(e) if e >= 1 && e <= n => op[i][d] = e,
                    _ => ok = false,
                }
            }
        }
        if !ok {
            continue;
        }
        let base = Sym { n, dim: 3, op, v: vec![vec![1; n + 1]; 3] };
        if base.validate().is_err() || !base.is_connected() {
            continue;
        }
        branchings(&base, &mut out);
    }
    out
}

/// Enumerate all admissible branching assignments of `base` (v in VS).
fn branchings(base: &Sym, out: &mut Vec<String>) {
    // orbit lists in assignment order: (1,2) first (shared by tiles and
    // vertex figures), then (0,1), then (2,3)
    let order = [1usize, 0, 2];
    let mut slots: Vec<(usize, Vec<usize>)> = vec![];
    for &i in &order {
        for orb in base.orbits(&[i, i + 1]) {
            slots.push((i, orb));
        }
    }
    let n12 = base.orbits(&[1, 2]).len();
    let n01 = base.orbits(&[0, 1]).len();
    let mut s = base.clone();
    rec(&mut s, &slots, 0, n12, n12 + n01, out);
}

fn positive_everywhere(s: &Sym, idcs: [usize; 3], full: bool) -> bool {
    for orb in s.orbits(&idcs) {
        let sub = s.subsymbol(&idcs, orb[0]);
        if full {
            if !spherical_2d(&sub) {
                return false;
            }
        } else if curvature_2d(&sub).0 <= 0 {
            return false;
        }
    }
    true
}

fn rec(s: &mut Sym, slots: &[(usize, Vec<usize>)], k: usize, end12: usize, end01: usize, out: &mut Vec<String>) {
    // pruning: unassigned orbits carry v = 1, the curvature maximum
    if k == end01 && !positive_everywhere(s, [0, 1, 2], true) {
        return;
    }
    if k == slots.len() {
        if positive_everywhere(s, [1, 2, 3], true) {
            out.push(s.to_text());
        }
        return;
    }
    if k > 0 && k != end01 {
        let idcs = if k <= end01 { [0, 1, 2] } else { [1, 2, 3] };
        if !positive_everywhere(s, idcs, false) {
            return;
        }
        if k <= end12 && !positive_everywhere(s, [1, 2, 3], false) {
            return;
        }
    }
    let (i, orb) = &slots[k];
    for &v in &VS {
        for &d in orb {
            s.v[*i][d] = v;
        }
        rec(s, slots, k + 1, end12, end01, out);
    }
    for &d in orb {
        s.v[*i][d] = 1;
    }
}

/// The lens space L(p, q) as a one-tile D-set (12p chambers): a p-gonal
/// bipyramid whose top face T_i = (N, e_i, e_{i+1}) is glued to the bottom
/// face B_{i+q} = (S, e_{i+q}, e_{i+q+1}). Independent of the repository;
/// callers verify it with dsx::manifold_check and homology::h1 == [p].
pub fn lens_space(p: usize, q: usize) -> Sym {
    let n = 12 * p;
    // chamber id of flag k (0..6) of face f (0..2p), 1-based
    let id = |f: usize, k: usize| f * 6 + k + 1;
    let mut op = vec![vec![0usize; n + 1]; 4];
    for f in 0..2 * p {
        // k: 0:(v0,a) 1:(v0,b) 2:(v1,a) 3:(v1,c) 4:(v2,b) 5:(v2,c)
        for (a, b) in [(0, 2), (1, 4), (3, 5)] {
            op[0][id(f, a)] = id(f, b);
            op[0][id(f, b)] = id(f, a);
        }
        for (a, b) in [(0, 1), (2, 3), (4, 5)] {
            op[1][id(f, a)] = id(f, b);
            op[1][id(f, b)] = id(f, a);
        }
    }
    for half in 0..2 {
        for i in 0..p {
            let f = half * p + i;
            let prev = half * p + (i + p - 1) % p;
            // edge a of this face is edge b of the previous one
            op[2][id(f, 0)] = id(prev, 1);
            op[2][id(prev, 1)] = id(f, 0);
            op[2][id(f, 2)] = id(prev, 4);
            op[2][id(prev, 4)] = id(f, 2);
        }
    }
    for i in 0..p {
        // equatorial edge c joins T_i and B_i
        for k in [3, 5] {
            op[2][id(i, k)] = id(p + i, k);
            op[2][id(p + i, k)] = id(i, k);
        }
        // face pairing T_i -> B_{i+q}
        let j = p + (i + q) % p;
        for k in 0..6 {
            op[3][id(i, k)] = id(j, k);
            op[3][id(j, k)] = id(i, k);
        }
    }
    let mut v = vec![vec![1usize; n + 1]; 3];
    for row in v.iter_mut() {
        row[0] = 0;
    }
    Sym { n, dim: 3, op, v }
}

#[cfg(test)]
mod tests {
    use super::*;
    use crate::dsx::manifold_check;
    use crate::homology::h1;

    #[test]
    fn lens_spaces_are_manifolds_with_cyclic_h1() {
        for p in 3..=12usize {
            for q in 1..p {
                if gcd(p, q) != 1 {
                    continue;
                }
                let l = lens_space(p, q);
                manifold_check(&l).unwrap_or_else(|e| panic!("L({},{}) not a manifold: {}", p, q, e));
                assert!(l.is_connected());
                assert_eq!(h1(&l).unwrap(), vec![p as u64], "L({},{})", p, q);
            }
        }
    }

    fn gcd(a: usize, b: usize) -> usize {
        if b == 0 {
            a
        } else {
            gcd(b, a % b)
        }
    }
}

/// One-cube manifolds: a cube whose opposite faces are glued by the
/// translation composed with a rotation by t[a] * 90 degrees about axis a.
/// All members share the chamber numbering of the cube boundary (ops 0, 1, 2
/// are identical), only op 3 differs - the family on which a memo table with
/// a key that ignores the face gluing would collide. Callers keep the members
/// that pass dsx::manifold_check (3-torus for t = [0,0,0], the half- and
/// quarter-turn manifolds, the quaternionic space, ...).
pub fn cube_manifold(t: [usize; 3]) -> Sym {
    // flag = (axis a of the face, side s, vertex coordinates (x0,x1,x2) with x[a] = s, direction d != a of the edge)
    let mut flags: Vec<(usize, usize, [usize; 3], usize)> = vec![];
    for a in 0..3 {
        for s in 0..2 {
            for u in 0..2 {
                for w in 0..2 {
                    let (b, c) = ((a + 1) % 3, (a + 2) % 3);
                    let mut v = [0usize; 3];
                    v[a] = s;
                    v[b] = u;
                    v[c] = w;
                    for d in [b, c] {
                        flags.push((a, s, v, d));
                    }
                }
            }
        }
    }
    let index = |f: &(usize, usize, [usize; 3], usize)| -> usize { flags.iter().position(|g| g == f).unwrap() + 1 };
    let n = flags.len();
    let mut op = vec![vec![0usize; n + 1]; 4];
    for (k, &(a, s, v, d)) in flags.iter().enumerate() {
        let other = 3 - a - d; // the third axis
        // op 0: other end of the edge
        let mut v0 = v;
        v0[d] = 1 - v0[d];
        op[0][k + 1] = index(&(a, s, v0, d));
        // op 1: other edge of the face at this vertex
        op[1][k + 1] = index(&(a, s, v, other));
        // op 2: other face at this edge
        op[2][k + 1] = index(&(other, v[other], v, d));
        // op 3: partner face (a, 1 - s); side 0 -> 1 by rot^t, side 1 -> 0 by its inverse
        let (b, c) = ((a + 1) % 3, (a + 2) % 3);
        let turns = if s == 0 { t[a] % 4 } else { (4 - t[a] % 4) % 4 };
        let (mut u, mut w) = (v[b], v[c]);
        let mut dir = d;
        for _ in 0..turns {
            // rotation by 90 degrees about axis a: (u, w) -> (1 - w, u), axes b and c swap
            let (nu, nw) = (1 - w, u);
            u = nu;
            w = nw;
            dir = if dir == b { c } else { b };
        }
        let mut v3 = [0usize; 3];
        v3[a] = 1 - s;
        v3[b] = u;
        v3[c] = w;
        op[3][k + 1] = index(&(a, 1 - s, v3, dir));
    }
    let mut vv = vec![vec![1usize; n + 1]; 3];
    for row in vv.iter_mut() {
        row[0] = 0;
    }
    Sym { n, dim: 3, op, v: vv }
}


/// A closed 3-dimensional pseudo-manifold from `k` tetrahedra whose 4k faces
/// are glued in seeded random pairs by seeded random vertex bijections (the
/// classical face-pairing construction of 3-manifold triangulations), as a
/// D-set: chambers are the flags (tetrahedron, vertex < edge < face), i.e.
/// (t, permutation p of 0..4) with vertex p0, edge {p0,p1}, face {p0,p1,p2};
/// op i swaps positions i and i+1 for i = 0, 1, 2, op 3 crosses the face
/// opposite p3. Callers keep the connected ones that pass dsx::manifold_check
/// (links of vertices, edge midpoints and face centres are 2-spheres): closed
/// 3-manifolds of all kinds - S^3, lens spaces, S^2 x S^1, connected sums,
/// flat, Seifert fibred and small hyperbolic manifolds - with cell structures
/// (faces meeting themselves, edges of degree 1 or 2) that covers of periodic
/// tilings never produce.
pub fn random_triangulation(k: usize, seed: u64) -> Option<Sym> {
    let mut rng = SplitMix64::new(seed ^ 0x7E7A_7E7A_0000_0000 ^ (k as u64) << 48);
    // permutations of [0,1,2,3] in lexicographic order
    let mut perms: Vec<[usize; 4]> = vec![];
    for a in 0..4 {
        for b in 0..4 {
            for c in 0..4 {
                for d in 0..4 {
                    let p = [a, b, c, d];
                    let mut seen = [false; 4];
                    if p.iter().all(|&x| !std::mem::replace(&mut seen[x], true)) {
                        perms.push(p);
                    }
                }
            }
        }
    }
    let pidx = |p: &[usize; 4]| perms.iter().position(|q| q == p).unwrap();
    // random perfect matching of the faces (t, a) = face of t opposite vertex a
    let mut faces: Vec<(usize, usize)> = (0..k).flat_map(|t| (0..4).map(move |a| (t, a))).collect();
    for i in (1..faces.len()).rev() {
        let j = rng.below(i + 1);
        faces.swap(i, j);
    }
    // glue[(t, a)] = (t2, a2, phi) with phi: labels -> labels, phi[a] = a2
    let mut glue = vec![vec![(0usize, 0usize, [0usize; 4]); 4]; k];
    for pair in faces.chunks(2) {
        let ((t1, a1), (t2, a2)) = (pair[0], pair[1]);
        let src: Vec<usize> = (0..4).filter(|&x| x != a1).collect();
        let mut dst: Vec<usize> = (0..4).filter(|&x| x != a2).collect();
        for i in (1..3).rev() {
            let j = rng.below(i + 1);
            dst.swap(i, j);
        }
        let mut phi = [0usize; 4];
        let mut inv = [0usize; 4];
        phi[a1] = a2;
        inv[a2] = a1;
        for i in 0..3 {
            phi[src[i]] = dst[i];
            inv[dst[i]] = src[i];
        }
        glue[t1][a1] = (t2, a2, phi);
        glue[t2][a2] = (t1, a1, inv);
    }
    let n = 24 * k;
    let mut op = vec![vec![0usize; n + 1]; 4];
    for t in 0..k {
        for (pi, p) in perms.iter().enumerate() {
            let d = 24 * t + pi + 1;
            for i in 0..3 {
                let mut q = *p;
                q.swap(i, i + 1);
                op[i][d] = 24 * t + pidx(&q) + 1;
            }
            let (t2, _a2, phi) = glue[t][p[3]];
            let q = [phi[p[0]], phi[p[1]], phi[p[2]], phi[p[3]]];
            op[3][d] = 24 * t2 + pidx(&q) + 1;
        }
    }
    let mut vv = vec![vec![1usize; n + 1]; 3];
    for row in vv.iter_mut() {
        row[0] = 0;
    }
    let s = Sym { n, dim: 3, op, v: vv };
    // op 3 must be an involution (it is, by construction) - and the symbol valid
    if s.validate().is_err() {
        return None;
    }
    Some(s)
}

#[cfg(test)]
mod cube_tests {
    use super::*;
    use crate::dsx::manifold_check;
    use crate::homology::h1;

    #[test]
    fn one_cube_family() {
        let torus = cube_manifold([0, 0, 0]);
        torus.validate().unwrap();
        manifold_check(&torus).unwrap();
        assert_eq!(h1(&torus).unwrap(), vec![0, 0, 0]);
        let mut manifolds = 0;
        for a in 0..4 {
            for b in 0..4 {
                for c in 0..4 {
                    let m = cube_manifold([a, b, c]);
                    assert_eq!(m.op[0], torus.op[0]);
                    assert_eq!(m.op[2], torus.op[2]);
                    if m.validate().is_ok() && manifold_check(&m).is_ok() {
                        manifolds += 1;
                    }
                }
            }
        }
        assert!(manifolds >= 4, "only {} one-cube manifolds", manifolds);
        // the quaternionic space
        let q8 = cube_manifold([1, 1, 1]);
        manifold_check(&q8).unwrap();
        assert_eq!(h1(&q8).unwrap(), vec![2, 2]);
    }
}
