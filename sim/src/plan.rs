//! Run plans: pure functions of (property, tier, VERIF_SEED, corpus, results
//! of the census stage). Every random choice comes from SplitMix64 seeded
//! with h(VERIF_SEED, property, run index).

use rust_dsymbols::covers::covers;
use rust_dsymbols::derived::minimal_image;

use crate::corpus::{maps_onto, Corpus, Entry};
use crate::dsx::Sym;
use crate::prng::{hmix, SplitMix64};
use crate::spec::{Expect, Op, PreOp, Repr, Spec, Xf};

#[derive(Clone, Copy, Debug, PartialEq, Eq)]
pub enum Tier {
    Quick,
    Thorough,
}

impl Tier {
    pub fn name(&self) -> &'static str {
        match self {
            Tier::Quick => "quick",
            Tier::Thorough => "thorough",
        }
    }
}

pub fn prop_code(prop: &str) -> u64 {
    match prop {
        "C16" => 16,
        "C17" => 17,
        _ => 0,
    }
}

pub struct Planner {
    /// literal texts from which explicit call histories (pre-ops) are drawn
    pub pre_pool: Vec<String>,
    pub seed: u64,
    pub prop: String,
    pub tier: Tier,
    pub next_idx: u64,
    pub hooks: bool,
}

pub const REASON_INVARIANTS: &str = "orbifold invariants do not match";
pub const REASON_NO_COVER: &str = "no pseudo-toroidal cover";

/// What the census stage learnt about one corpus entry.
#[derive(Clone, Debug, Default)]
pub struct Census {
    pub class: String,
    pub reason: String,
    pub n_decisions: usize,
    /// harness instrument: invariant string found in the space-group table
    /// (None: instrument not available for this run)
    pub passes_filter: Option<bool>,
}

impl Census {
    pub fn from_record(r: &crate::exec::Record) -> Census {
        let passes_filter = if r.notes.iter().any(|n| n == "filter:pass") {
            Some(true)
        } else if r.notes.iter().any(|n| n == "filter:fail") {
            Some(false)
        } else {
            None
        };
        Census { class: r.outcome.clone(), reason: r.detail.clone(), n_decisions: r.decisions.len(), passes_filter }
    }

    /// passes the invariant filter: reaches cover construction / simplify.
    /// Decided by the harness's own table lookup; the reason string is only a
    /// fallback when the instrument is unavailable.
    pub fn interesting(&self) -> bool {
        if self.class.is_empty() {
            return false;
        }
        if self.class != "no" || self.n_decisions > 0 {
            return true;
        }
        match self.passes_filter {
            Some(b) => b,
            None => self.reason != REASON_INVARIANTS,
        }
    }
    pub fn has_ptc(&self) -> bool {
        self.interesting() && self.class != "panic" && (self.class != "no" || self.n_decisions > 0 || self.reason != REASON_NO_COVER)
    }
}

impl Planner {
    pub fn new(seed: u64, prop: &str, tier: Tier, hooks: bool) -> Planner {
        Planner { pre_pool: vec![], seed, prop: prop.to_string(), tier, next_idx: 0, hooks }
    }

    fn rng_for(&self, idx: u64) -> SplitMix64 {
        SplitMix64::new(hmix(&[self.seed, prop_code(&self.prop), idx]))
    }

    fn base_spec(&mut self, group: &str, base: &str, op: Op) -> (Spec, SplitMix64) {
        let idx = self.next_idx;
        self.next_idx += 1;
        let rng = self.rng_for(idx);
        (
            Spec {
                idx,
                prop: self.prop.clone(),
                group: group.to_string(),
                parent: None,
                known_euclidean: false,
                base: base.to_string(),
                xf: vec![],
                repr: Repr::PartialDSym,
                op,
                cxf: vec![],
                expect: Expect::Unknown,
                hist: 0,
                pre: vec![],
                k0: 0,
                k1: 0,
                steer: vec![],
                steer_min_beyond: false,
                rec_states: false,
                deep: false,
                want_inv: false,
                classify: false,
            },
            rng,
        )
    }

    /// Census: every entry once, identity numbering, control keys (0, 0).
    pub fn census(&mut self, entries: &[&Entry]) -> Vec<Spec> {
        entries
            .iter()
            .map(|e| {
                let (mut s, _) = self.base_spec(&e.id, &e.text, Op::IsEuclidean);
                s.classify = true;
                s
            })
            .collect()
    }

    fn perturb(&self, spec: &mut Spec, rng: &mut SplitMix64, interesting: bool) {
        spec.k0 = rng.next_u64();
        spec.k1 = rng.next_u64();
        spec.hist = match rng.below(8) {
            0 => 1,
            1 => 2,
            2 => 3,
            _ => 0,
        };
        if interesting && !self.pre_pool.is_empty() && rng.chance(1, 5) {
            // explicit call history: earlier calls on other corpus symbols on
            // the same run thread (thread-local or process-wide state left
            // behind by a call must not change a later result). Three quarters
            // have one or two earlier calls, one quarter three to eight; a
            // sixth of the calls is a battery of other public functions, a
            // third gets a renumbered symbol.
            let n = if rng.chance(1, 4) { 3 + rng.below(6) } else { 1 + rng.below(2) };
            for _ in 0..n {
                let base = self.pre_pool[rng.below(self.pre_pool.len())].clone();
                let op = if rng.chance(1, 6) {
                    Op::Battery
                } else if self.prop == "C16" && rng.chance(1, 2) {
                    Op::SimplifyPtc
                } else {
                    Op::IsEuclidean
                };
                let dual = rng.chance(1, 3);
                let shuffle = if rng.chance(1, 3) { Some(rng.next_u64()) } else { None };
                // fault injection: a sixth of the earlier calls unwinds with a
                // panic somewhere inside simplify (caught by the caller)
                let abort_at = if self.hooks && op != Op::Battery && rng.chance(1, 6) { Some(1 + rng.below(48) as u64) } else { None };
                spec.pre.push(PreOp { base, dual, op, shuffle, abort_at });
            }
            if rng.chance(1, 4) {
                // ... and the last earlier call gets the run's own base symbol
                // (a repeated call must not see what the first one left behind)
                let op = if self.prop == "C16" && spec.op == Op::SimplifyPtc { Op::SimplifyPtc } else { Op::IsEuclidean };
                let shuffle = if rng.chance(1, 2) { Some(rng.next_u64()) } else { None };
                let abort_at = if self.hooks && rng.chance(1, 4) { Some(1 + rng.below(48) as u64) } else { None };
                spec.pre.push(PreOp { base: spec.base.clone(), dual: rng.chance(1, 2), op, shuffle, abort_at });
            }
        }
        if interesting && self.hooks && rng.chance(1, 16) {
            // sampled runs also record every intermediate D-set of simplify
            spec.rec_states = true;
        }
        if interesting && self.hooks && rng.chance(1, 5) {
            // steered deviation: natural everywhere except one or two ordinals
            let n = 1 + rng.below(2);
            for _ in 0..n {
                let ord = rng.below(8);
                let opt = rng.below(16);
                if !spec.steer.iter().any(|&(o, _)| o == ord) {
                    spec.steer.push((ord, opt));
                }
            }
            spec.steer.sort();
        }
    }

    fn c17_repr(rng: &mut SplitMix64) -> Repr {
        if rng.chance(1, 4) {
            Repr::SimpleDSym
        } else {
            Repr::PartialDSym
        }
    }

    fn xf_mix(rng: &mut SplitMix64) -> Vec<Xf> {
        let mut xf = vec![];
        match rng.below(6) {
            0 => {}
            1 => xf.push(Xf::Dual),
            2 | 3 => xf.push(Xf::Shuffle(rng.next_u64())),
            4 => {
                xf.push(Xf::Dual);
                xf.push(Xf::Shuffle(rng.next_u64()));
            }
            _ => {
                xf.push(Xf::Shuffle(rng.next_u64()));
                xf.push(Xf::Dual);
            }
        }
        xf
    }

    /// C17 exploration stage.
    pub fn c17_stage_b(&mut self, corpus: &Corpus, census_g: &[Census], kplus: &[bool], cover_counts: &CoverCounts, sweep: &CoverCounts) -> Vec<Spec> {
        let thorough = self.tier == Tier::Thorough;
        let mut specs = vec![];
        // B1: every generated symbol: renumbered, and dual + renumbered
        for (gi, e) in corpus.g.iter().enumerate() {
            let interesting = census_g[gi].interesting();
            for variant in 0..2 {
                // quick tier: the 5-/6-chamber extras get one of the two variants
                if !thorough && gi >= corpus.extra_from && variant != gi % 2 {
                    continue;
                }
                let (mut s, mut rng) = self.base_spec(&e.id, &e.text, Op::IsEuclidean);
                if variant == 1 {
                    s.xf.push(Xf::Dual);
                }
                s.xf.push(Xf::Shuffle(rng.next_u64()));
                s.repr = Self::c17_repr(&mut rng);
                s.known_euclidean = kplus[gi];
                self.perturb(&mut s, &mut rng, interesting);
                specs.push(s);
            }
        }
        // B2: symbols that pass the invariant filter: many keys x transformations
        for (gi, e) in corpus.g.iter().enumerate() {
            if !census_g[gi].interesting() {
                continue;
            }
            let extra = gi >= corpus.extra_from;
            let fallback_witness = e.id == "J0" || e.id == "J1";
            let bulk8 = e.id.starts_with('J') && !fallback_witness;
            let reps = match (thorough, extra) {
                _ if fallback_witness => if thorough { 200 } else { 16 },
                _ if bulk8 => 0,
                (false, false) => 8,
                (false, true) => 0,
                (true, false) => 200,
                (true, true) => 12,
            };
            for r in 0..reps {
                let (mut s, mut rng) = self.base_spec(&e.id, &e.text, Op::IsEuclidean);
                s.xf = Self::xf_mix(&mut rng);
                s.repr = Self::c17_repr(&mut rng);
                s.known_euclidean = kplus[gi];
                s.deep = r == 0 || (thorough && r % 50 == 0);
                s.want_inv = r == 0;
                self.perturb(&mut s, &mut rng, true);
                specs.push(s);
            }
        }
        // B3: known-euclidean literals
        let reps = if thorough { 400 } else { 16 };
        for e in corpus.k0.iter() {
            for r in 0..reps {
                let (mut s, mut rng) = self.base_spec(&e.id, &e.text, Op::IsEuclidean);
                s.xf = Self::xf_mix(&mut rng);
                s.repr = Self::c17_repr(&mut rng);
                s.known_euclidean = true;
                s.deep = r < 2 || (thorough && r % 50 == 0);
                s.want_inv = r < 2;
                self.perturb(&mut s, &mut rng, true);
                specs.push(s);
            }
        }
        // B3b: systematic single deviations (seam S) on the corpus literals
        if self.hooks {
            let (max_ord, max_opt) = if thorough { (8, 16) } else { (3, 4) };
            for e in corpus.k0.iter() {
                for ord in 0..max_ord {
                    for opt in 0..max_opt {
                        let (mut s, mut rng) = self.base_spec(&e.id, &e.text, Op::IsEuclidean);
                        s.known_euclidean = true;
                        s.k0 = rng.next_u64();
                        s.k1 = rng.next_u64();
                        s.steer = vec![(ord, opt)];
                        specs.push(s);
                    }
                }
            }
        }
        // B4: verified covers as base symbols (renumbered, half dualised)
        for cc in cover_counts.list.iter() {
            let extra = cc.id.starts_with('H') || cc.id.starts_with('I');
            let reps = match (thorough, cc.known_euclidean, extra) {
                (_, _, true) => 1,
                (false, true, false) => 20,
                (false, false, false) => 1,
                (true, true, false) => 600,
                // thorough: k = 3 for filter-passing bases, k = 2 marks the light
                // blocks (rejected symbols): one run per cover
                (true, false, false) => if cc.k >= 3 { 8 } else { 1 },
            };
            for j in 0..cc.count {
                // j = 0 is the trivial (1-sheeted) cover: covered by B1-B3
                if cc.sheets[j] < 2 {
                    continue;
                }
                for r in 0..reps {
                    let group = format!("{}/c{}.{}", cc.id, cc.k, j);
                    let (mut s, mut rng) = self.base_spec(&group, &cc.text, Op::IsEuclidean);
                    s.parent = Some(cc.id.clone());
                    s.xf.push(Xf::Cover { k: cc.k, j });
                    if r > 0 {
                        s.xf.push(Xf::Shuffle(rng.next_u64()));
                    }
                    if r % 2 == 1 {
                        s.xf.push(Xf::Dual);
                    }
                    s.repr = Self::c17_repr(&mut rng);
                    s.known_euclidean = cc.known_euclidean;
                    s.deep = r == 0 && cc.known_euclidean;
                    s.want_inv = r == 0;
                    self.perturb(&mut s, &mut rng, true);
                    specs.push(s);
                }
            }
        }
        // B7: space-group sweep: every cover with up to 24 (thorough: 48) sheets of
        // the cubic tiling and up to 16 (24) sheets of the hexagonal prism tiling
        // is a known-euclidean symbol; together they exercise most entries of
        // the invariant table, all point groups of the cover construction and
        // tori of many shapes
        for cc in sweep.list.iter() {
            let reps = if thorough { 3 } else if cc.k <= 8 { 2 } else { 1 };
            for j in 0..cc.count {
                if cc.sheets[j] < 2 {
                    continue;
                }
                // the deepest covers of the thorough tier (more than 48 sheets of the
                // cube, more than 8 of another literal) get a single run
                let deep_cover = cc.sheets[j] > if cc.text == CUBE { 48 } else { 8 } && cc.k > 24;
                let deep_lit = cc.sheets[j] > 8 && cc.text != CUBE && cc.text != HEX_PRISM;
                let reps = if deep_cover || deep_lit { 1 } else { reps };
                for r in 0..reps {
                    let group = format!("{}/c{}.{}", cc.id, cc.k, j);
                    let (mut s, mut rng) = self.base_spec(&group, &cc.text, Op::IsEuclidean);
                    s.parent = Some(cc.id.clone());
                    s.xf.push(Xf::Cover { k: cc.k, j });
                    if r == 1 {
                        s.xf.push(Xf::Shuffle(rng.next_u64()));
                    }
                    if r == 2 {
                        s.xf.push(Xf::Dual);
                        s.xf.push(Xf::Shuffle(rng.next_u64()));
                    }
                    s.repr = Self::c17_repr(&mut rng);
                    s.known_euclidean = true;
                    s.want_inv = r == 0;
                    s.deep = r == 0 && j % 16 == 0;
                    self.perturb(&mut s, &mut rng, true);
                    specs.push(s);
                }
            }
        }
        // B8: one known-euclidean witness per entry of the invariant table
        // (cover of a cover of a literal): every space-group type gets a yes run
        for (e, chain) in corpus.sg_witnesses.iter() {
            let reps = if thorough { 6 } else { 2 };
            let parent = corpus.k0.iter().find(|k| k.text == e.text).map(|k| k.id.clone());
            for r in 0..reps {
                let (mut s, mut rng) = self.base_spec(&e.id, &e.text, Op::IsEuclidean);
                s.parent = parent.clone();
                s.xf.push(Xf::Cover { k: chain[0], j: chain[1] });
                s.xf.push(Xf::Cover { k: chain[2], j: chain[3] });
                if r > 0 {
                    if r % 2 == 0 {
                        s.xf.push(Xf::Dual);
                    }
                    s.xf.push(Xf::Shuffle(rng.next_u64()));
                }
                s.repr = Self::c17_repr(&mut rng);
                s.known_euclidean = true;
                s.want_inv = r == 0;
                s.deep = r == 0 && s.idx % 4 == 0;
                self.perturb(&mut s, &mut rng, true);
                specs.push(s);
            }
        }
        // B9: ordered pairs of corpus literals (and duals): is_euclidean(b) right
        // after is_euclidean(a) on the same thread must still say yes
        {
            let mut items: Vec<(String, bool)> = vec![];
            for e in corpus.k0.iter() {
                items.push((e.text.clone(), false));
                items.push((e.text.clone(), true));
            }
            let mut n_pairs = 0;
            for (ia, a) in items.iter().enumerate() {
                for (ib, b) in items.iter().enumerate() {
                    if ia == ib {
                        continue;
                    }
                    // quick: a seeded quarter of the 1,892 ordered pairs
                    if !thorough && hmix(&[self.seed, 0x9A12, ia as u64, ib as u64]) % 4 != 0 {
                        continue;
                    }
                    let group = corpus.k0[ib / 2].id.clone();
                    let (mut s, mut rng) = self.base_spec(&group, &b.0, Op::IsEuclidean);
                    if b.1 {
                        s.xf.push(Xf::Dual);
                    }
                    s.known_euclidean = true;
                    s.k0 = rng.next_u64();
                    s.k1 = rng.next_u64();
                    s.pre.push(PreOp { base: a.0.clone(), dual: a.1, op: Op::IsEuclidean, shuffle: None, abort_at: None });
                    specs.push(s);
                    n_pairs += 1;
                }
            }
            let _ = n_pairs;
        }
        // B10: sessions - a seeded sequence of three to eight calls on ONE thread
        // (literals, filter-passing and rejected generated symbols, finite-group
        // symbols, the fallback-branch witnesses; duals and renumberings; repeated
        // symbols; batteries of other public functions). Every position of the
        // sequence is judged: position j is a run whose explicit call history is
        // positions 0..j, compared within its symbol's group like any other run.
        {
            struct Item {
                group: String,
                text: String,
                known: bool,
                literal: bool,
            }
            let lit: Vec<Item> = corpus.k0.iter().map(|e| Item { group: e.id.clone(), text: e.text.clone(), known: true, literal: true }).collect();
            let mut other: Vec<Item> = vec![];
            for (gi, e) in corpus.g.iter().enumerate() {
                let fallback_witness = e.id == "J0" || e.id == "J1";
                if gi >= corpus.extra_from && !fallback_witness {
                    continue;
                }
                // all filter-passing symbols and a seeded eighth of the rejected ones
                // (a call that leaves early may leave something behind as well)
                if census_g[gi].interesting() || hmix(&[self.seed, 0x5E50, gi as u64]) % 8 == 0 {
                    other.push(Item { group: e.id.clone(), text: e.text.clone(), known: kplus[gi], literal: false });
                }
            }
            for e in corpus.finite.iter() {
                other.push(Item { group: e.id.clone(), text: e.text.clone(), known: false, literal: false });
            }
            fn optable(text: &str) -> &str {
                &text[..text.rfind(':').unwrap_or(text.len())]
            }
            let mut siblings: std::collections::BTreeMap<&str, Vec<(bool, usize)>> = std::collections::BTreeMap::new();
            for (i, it) in lit.iter().enumerate() {
                siblings.entry(optable(&it.text)).or_default().push((true, i));
            }
            for (i, it) in other.iter().enumerate() {
                siblings.entry(optable(&it.text)).or_default().push((false, i));
            }
            // short sessions (3-8 calls, every position judged) and long ones
            // (12-40 calls, every position from the ninth on judged: a state that
            // builds up over many calls - a counter, a budget, a growing table -
            // needs more history than any short session has)
            fn size_of(text: &str) -> usize {
                text.split(':').nth(1).and_then(|x| x.split_whitespace().next()).and_then(|x| x.parse().ok()).unwrap_or(0)
            }
            let mut by_size: std::collections::BTreeMap<usize, Vec<(bool, usize)>> = std::collections::BTreeMap::new();
            for (i, it) in lit.iter().enumerate() {
                by_size.entry(size_of(&it.text)).or_default().push((true, i));
            }
            for (i, it) in other.iter().enumerate() {
                by_size.entry(size_of(&it.text)).or_default().push((false, i));
            }
            let configs: [(usize, usize, usize, usize, u64); 2] = if thorough { [(4000, 3, 6, 1, 0x5E55), (300, 12, 29, 8, 0x5E57)] } else { [(400, 3, 6, 1, 0x5E55), (24, 12, 29, 8, 0x5E57)] };
            for (n_sessions, len_lo, len_span, judge_from, salt) in configs {
            for si in 0..n_sessions {
                let mut r = SplitMix64::new(hmix(&[self.seed, salt, si as u64]));
                let len = len_lo + r.below(len_span);
                // (in literals?, index, dual, shuffle, battery)
                let mut elems: Vec<(bool, usize, bool, Option<u64>, bool, Option<u64>)> = vec![];
                for j in 0..len {
                    let (in_lit, ix) = if j > 0 && r.chance(1, 4) {
                        let e = elems[r.below(j)];
                        (e.0, e.1)
                    } else if j > 0 && r.chance(1, 3) {
                        // a sibling of an earlier element: same D-set (op table),
                        // other branching degrees - the natural collision partner
                        // for any cache keyed on part of the input
                        let e = elems[r.below(j)];
                        let it = if e.0 { &lit[e.1] } else { &other[e.1] };
                        match siblings.get(optable(&it.text)) {
                            Some(list) if list.len() > 1 => list[r.below(list.len())],
                            _ => (e.0, e.1),
                        }
                    } else if j > 0 && r.chance(1, 3) {
                        // a size relative of an earlier element: same, double or half
                        // the number of chambers (a symbol and its orientation cover,
                        // buffers and tables sized by an earlier call)
                        let e = elems[r.below(j)];
                        let it = if e.0 { &lit[e.1] } else { &other[e.1] };
                        let n = size_of(&it.text);
                        let target = match r.below(3) {
                            0 => n,
                            1 => 2 * n,
                            _ => if n % 2 == 0 { n / 2 } else { 2 * n },
                        };
                        match by_size.get(&target) {
                            Some(list) if !list.is_empty() => list[r.below(list.len())],
                            _ => (e.0, e.1),
                        }
                    } else if other.is_empty() || r.chance(1, 2) {
                        (true, r.below(lit.len()))
                    } else {
                        (false, r.below(other.len()))
                    };
                    let dual = r.chance(1, 3);
                    let shuffle = if r.chance(1, 2) { Some(r.next_u64()) } else { None };
                    let battery = in_lit && j + 1 < len && r.chance(1, 6);
                    // injected abort when this element is replayed as an earlier call
                    let abort = if self.hooks && !battery && r.chance(1, 6) { Some(1 + r.below(48) as u64) } else { None };
                    elems.push((in_lit, ix, dual, shuffle, battery, abort));
                }
                for j in judge_from..len {
                    let (in_lit, ix, dual, shuffle, battery, _) = elems[j];
                    if battery {
                        continue;
                    }
                    let it = if in_lit { &lit[ix] } else { &other[ix] };
                    let (group, text, known) = (it.group.clone(), it.text.clone(), it.known);
                    let (mut s, mut rng) = self.base_spec(&group, &text, Op::IsEuclidean);
                    if dual {
                        s.xf.push(Xf::Dual);
                    }
                    if let Some(x) = shuffle {
                        s.xf.push(Xf::Shuffle(x));
                    }
                    s.known_euclidean = known;
                    s.repr = Self::c17_repr(&mut rng);
                    s.k0 = rng.next_u64();
                    s.k1 = rng.next_u64();
                    for &(l2, i2, d2, sh2, b2, ab2) in &elems[..j] {
                        let it2 = if l2 { &lit[i2] } else { &other[i2] };
                        s.pre.push(PreOp { base: it2.text.clone(), dual: d2, op: if b2 { Op::Battery } else { Op::IsEuclidean }, shuffle: sh2, abort_at: ab2 });
                    }
                    specs.push(s);
                }
            }
            }
        }
        // B5: finite-group symbols (expected "no" by the invariant filter)
        for e in corpus.finite.iter() {
            for _ in 0..8 {
                let (mut s, mut rng) = self.base_spec(&e.id, &e.text, Op::IsEuclidean);
                s.xf = Self::xf_mix(&mut rng);
                s.repr = Self::c17_repr(&mut rng);
                self.perturb(&mut s, &mut rng, false);
                specs.push(s);
            }
        }
        specs
    }

    fn c16_repr(rng: &mut SplitMix64) -> Repr {
        match rng.below(8) {
            0 => Repr::PartialDSet,
            1 => Repr::SimpleDSet,
            2 => Repr::SimpleDSym,
            _ => Repr::PartialDSym,
        }
    }

    /// One block of C16 runs on the pseudo-toroidal cover of one base symbol:
    /// `base_variants` numberings of the base x `cover_shuffles` renumberings
    /// of the cover (plus the identity) x `keys` key pairs.
    #[allow(clippy::too_many_arguments)]
    fn c16_block(
        &mut self,
        out: &mut Vec<Spec>,
        group: &str,
        text: &str,
        pre: &[Xf],
        base_variants: usize,
        cover_shuffles: usize,
        keys: usize,
        expect: Expect,
        known: bool,
    ) {
        for bv in 0..base_variants {
            let bseed = hmix(&[self.seed, 0xB5, self.next_idx, bv as u64]);
            for cs in 0..=cover_shuffles {
                for k in 0..keys {
                    let (mut s, mut rng) = self.base_spec(group, text, Op::SimplifyPtc);
                    s.xf = pre.to_vec();
                    if bv > 0 {
                        s.xf.push(Xf::Shuffle(bseed));
                    }
                    if cs > 0 {
                        s.cxf.push(Xf::Shuffle(rng.next_u64()));
                    }
                    s.repr = Self::c16_repr(&mut rng);
                    s.expect = expect;
                    s.known_euclidean = known;
                    s.deep = k == 0 && cs <= 1;
                    self.perturb(&mut s, &mut rng, true);
                    specs_push(out, s);
                }
            }
        }
    }

    /// C16 exploration stage.
    pub fn c16_stage_b(&mut self, corpus: &Corpus, census_g: &[Census], kplus: &[bool], cover_counts: &CoverCounts, sweep: &CoverCounts) -> Vec<Spec> {
        let thorough = self.tier == Tier::Thorough;
        let mut specs = vec![];
        // B1: known-euclidean literals and their duals
        for e in corpus.k0.iter() {
            for dualise in [false, true] {
                let group = if dualise { format!("{}d", e.id) } else { e.id.clone() };
                let pre = if dualise { vec![Xf::Dual] } else { vec![] };
                let (bv, cs, keys) = if thorough { (3, 700, 2) } else { (3, 4, 4) };
                self.c16_block(&mut specs, &group, &e.text, &pre, bv, cs, keys, Expect::Torus, true);
                if thorough {
                    // many keys on a few fixed numberings
                    self.c16_block(&mut specs, &group, &e.text, &pre, 1, 3, 125, Expect::Torus, true);
                }
            }
        }
        // B2: generated symbols whose pseudo-toroidal cover reaches simplify
        for (gi, e) in corpus.g.iter().enumerate() {
            if !census_g[gi].has_ptc() {
                continue;
            }
            let known = kplus[gi];
            let expect = if known { Expect::Torus } else { Expect::Unknown };
            let extra = gi >= corpus.extra_from;
            let fallback_witness = e.id == "J0" || e.id == "J1";
            let bulk8 = e.id.starts_with('J') && !fallback_witness;
            let (bv, cs, keys) = match (thorough, known, extra) {
                _ if fallback_witness => if thorough { (2, 100, 2) } else { (1, 8, 2) },
                _ if bulk8 => (1, 1, 1),
                (false, _, true) => (1, 1, 1),
                (true, _, true) => (1, 12, 1),
                (false, false, false) => (1, 3, 2),
                (false, true, false) => (1, 100, 1),
                (true, false, false) => (1, 150, 2),
                (true, true, false) => (2, 1000, 1),
            };
            self.c16_block(&mut specs, &e.id, &e.text, &[], bv, cs, keys, expect, known);
        }
        // B3: finite universal covers of the spherical corpus (S^3)
        for e in corpus.finite.iter() {
            let (cs, keys) = if thorough { (40, 2) } else { (3, 2) };
            for c in 0..=cs {
                for k in 0..keys {
                    let (mut s, mut rng) = self.base_spec(&format!("{}/fuc", e.id), &e.text, Op::SimplifyFuc);
                    if c > 0 {
                        s.cxf.push(Xf::Shuffle(rng.next_u64()));
                    }
                    s.repr = Self::c16_repr(&mut rng);
                    s.expect = Expect::SameAsInput;
                    s.deep = k == 0 && c == 0;
                    self.perturb(&mut s, &mut rng, true);
                    specs.push(s);
                }
            }
        }
        // B3b: universal covers (3-spheres of many shapes) of all small finite-group symbols
        for (k, e) in corpus.finite_small.iter().enumerate() {
            let reps = if thorough { 6 } else { 1 };
            for r in 0..reps {
                let (mut s, mut rng) = self.base_spec(&format!("{}/fuc", e.id), &e.text, Op::SimplifyFuc);
                if r > 0 || k % 2 == 1 {
                    s.cxf.push(Xf::Shuffle(rng.next_u64()));
                }
                s.repr = Self::c16_repr(&mut rng);
                s.expect = Expect::SameAsInput;
                self.perturb(&mut s, &mut rng, true);
                specs.push(s);
            }
        }
        // B3c: closed manifolds with non-trivial finite fundamental group
        // (torsion-free covers of finite-group symbols): topology must be kept
        for (e, word) in corpus.manifold_covers.iter() {
            let reps = if thorough { 40 } else { 4 };
            for r in 0..reps {
                let (mut s, mut rng) = self.base_spec(&format!("{}/sub", e.id), &e.text, Op::SimplifySelf);
                s.xf.push(Xf::SubCover(word.clone()));
                if r > 0 {
                    s.cxf.push(Xf::Shuffle(rng.next_u64()));
                }
                s.repr = Self::c16_repr(&mut rng);
                s.expect = Expect::SameAsInput;
                s.deep = r == 0;
                self.perturb(&mut s, &mut rng, true);
                specs.push(s);
            }
        }
        // B3d: lens spaces L(p, q) from the harness's own bipyramid construction
        // (pi1 = Z_p known a priori; verified by dsx::manifold_check + own H1)
        // (seeded defect S23 only shows for p >= 13, q >= 3 in ~1 % of runs)
        let pmax = if thorough { 40 } else { 24 };
        for p in 3..=pmax {
            for q in 1..=p / 2 {
                if gcd(p, q) != 1 {
                    continue;
                }
                let l = crate::gen::lens_space(p, q);
                if crate::dsx::manifold_check(&l).is_err() || crate::homology::h1(&l).ok() != Some(vec![p as u64]) {
                    continue;
                }
                let text = l.to_text();
                let reps = if thorough { 30 } else { 4 };
                for r in 0..reps {
                    let (mut s, mut rng) = self.base_spec(&format!("L{}.{}/self", p, q), &text, Op::SimplifySelf);
                    if r > 0 {
                        s.cxf.push(Xf::Shuffle(rng.next_u64()));
                    }
                    s.repr = Self::c16_repr(&mut rng);
                    s.expect = Expect::SameAsInput;
                    s.deep = r == 0;
                    self.perturb(&mut s, &mut rng, true);
                    specs.push(s);
                }
            }
        }
        // B3e: one-cube manifolds (same cube, different face gluings: ops 0-2 and the
        // chamber numbering are shared, only op 3 differs) as ordered pairs on one
        // thread: simplify(y) right after simplify(x). The torus member is a
        // verified cover of the cubic tiling, so its result must be the cube.
        {
            let mut family: Vec<(String, bool)> = vec![];
            for a in 0..4 {
                for b in 0..4 {
                    for c in 0..4 {
                        let m = crate::gen::cube_manifold([a, b, c]);
                        if m.validate().is_ok() && m.is_connected() && crate::dsx::manifold_check(&m).is_ok() {
                            let is_torus = [a, b, c] == [0, 0, 0];
                            family.push((m.to_text(), is_torus));
                        }
                    }
                }
            }
            for (ix, x) in family.iter().enumerate() {
                for (iy, y) in family.iter().enumerate() {
                    if ix == iy {
                        continue;
                    }
                    if !thorough && !y.1 && !x.1 && hmix(&[self.seed, 0xC0BE, ix as u64, iy as u64]) % 4 != 0 {
                        continue;
                    }
                    let (mut s, mut rng) = self.base_spec(&format!("Q{}/self", iy), &y.0, Op::SimplifySelf);
                    s.expect = if y.1 { Expect::Torus } else { Expect::Unknown };
                    s.known_euclidean = y.1;
                    s.k0 = rng.next_u64();
                    s.k1 = rng.next_u64();
                    s.pre.push(PreOp { base: x.0.clone(), dual: false, op: Op::SimplifySelf, shuffle: None, abort_at: None });
                    specs.push(s);
                }
            }
            // lens spaces with the same p share ops 0-2 as well
            for p in [5usize, 7, 8, 9, 11, 13] {
                let qs: Vec<usize> = (1..=p / 2).filter(|&q| gcd(p, q) == 1).collect();
                for &q1 in &qs {
                    for &q2 in &qs {
                        if q1 == q2 {
                            continue;
                        }
                        let (mut s, mut rng) = self.base_spec(&format!("L{}.{}/self", p, q2), &crate::gen::lens_space(p, q2).to_text(), Op::SimplifySelf);
                        s.expect = Expect::SameAsInput;
                        s.k0 = rng.next_u64();
                        s.k1 = rng.next_u64();
                        s.pre.push(PreOp { base: crate::gen::lens_space(p, q1).to_text(), dual: false, op: Op::SimplifySelf, shuffle: None, abort_at: None });
                        specs.push(s);
                    }
                }
            }
            // B3f: sessions - three to eight simplify / is_euclidean / battery calls
            // on ONE thread over pseudo-toroidal covers of the literals, the one-cube
            // family and lens spaces; every position is judged with positions 0..j as
            // its explicit call history.
            {
                #[derive(Clone)]
                enum It {
                    Ptc(usize, bool),
                    Cube(usize),
                    Lens(usize, usize),
                }
                let lens: Vec<(usize, usize)> = [5usize, 7, 8, 9, 11, 13].iter().flat_map(|&p| (1..=p / 2).filter(move |&q| gcd(p, q) == 1).map(move |q| (p, q))).collect();
                let configs: [(usize, usize, usize, usize, u64); 2] = if thorough { [(3000, 3, 6, 1, 0x5E56), (200, 12, 29, 8, 0x5E58)] } else { [(200, 3, 6, 1, 0x5E56), (48, 12, 29, 8, 0x5E58)] };
                for (n_sessions, len_lo, len_span, judge_from, salt) in configs {
                for si in 0..n_sessions {
                    let mut r = SplitMix64::new(hmix(&[self.seed, salt, si as u64]));
                    let len = len_lo + r.below(len_span);
                    // (item, run as is_euclidean/battery instead of simplify: 0 = simplify, 1 = is_euclidean, 2 = battery)
                    let mut elems: Vec<(It, u8, Option<u64>)> = vec![];
                    for j in 0..len {
                        let it = if j > 0 && r.chance(1, 4) {
                            elems[r.below(j)].0.clone()
                        } else {
                            // long sessions: mostly tori (the expensive rewriting paths)
                            match if judge_from > 1 { r.below(8) } else { r.below(4) } {
                                0 | 1 | 4 | 5 | 6 | 7 => It::Ptc(r.below(corpus.k0.len()), r.chance(1, 3)),
                                2 => It::Cube(r.below(family.len())),
                                _ => {
                                    let l = lens[r.below(lens.len())];
                                    It::Lens(l.0, l.1)
                                }
                            }
                        };
                        let kind = match (&it, j + 1 < len) {
                            (It::Ptc(..), true) => match r.below(6) {
                                0 => 1,
                                1 => 2,
                                _ => 0,
                            },
                            _ => 0,
                        };
                        let abort = if self.hooks && kind != 2 && r.chance(1, 6) { Some(1 + r.below(48) as u64) } else { None };
                        elems.push((it, kind, abort));
                    }
                    let pre_of = |e: &(It, u8, Option<u64>)| -> PreOp {
                        let mut p = match &e.0 {
                            It::Ptc(i, d) => PreOp {
                                base: corpus.k0[*i].text.clone(),
                                dual: *d,
                                op: match e.1 {
                                    1 => Op::IsEuclidean,
                                    2 => Op::Battery,
                                    _ => Op::SimplifyPtc,
                                },
                                shuffle: None,
                                abort_at: None,
                            },
                            It::Cube(i) => PreOp { base: family[*i].0.clone(), dual: false, op: Op::SimplifySelf, shuffle: None, abort_at: None },
                            It::Lens(p, q) => PreOp { base: crate::gen::lens_space(*p, *q).to_text(), dual: false, op: Op::SimplifySelf, shuffle: None, abort_at: None },
                        };
                        p.abort_at = e.2;
                        p
                    };
                    for j in judge_from..len {
                        if elems[j].1 != 0 {
                            continue;
                        }
                        let (mut s, mut rng) = match &elems[j].0 {
                            It::Ptc(i, d) => {
                                let e = &corpus.k0[*i];
                                let group = if *d { format!("{}d", e.id) } else { e.id.clone() };
                                let (mut s, rng) = self.base_spec(&group, &e.text, Op::SimplifyPtc);
                                if *d {
                                    s.xf.push(Xf::Dual);
                                }
                                s.expect = Expect::Torus;
                                s.known_euclidean = true;
                                (s, rng)
                            }
                            It::Cube(i) => {
                                let y = &family[*i];
                                let (mut s, rng) = self.base_spec(&format!("Q{}/self", i), &y.0, Op::SimplifySelf);
                                s.expect = if y.1 { Expect::Torus } else { Expect::Unknown };
                                s.known_euclidean = y.1;
                                (s, rng)
                            }
                            It::Lens(p, q) => {
                                let (mut s, rng) = self.base_spec(&format!("L{}.{}/self", p, q), &crate::gen::lens_space(*p, *q).to_text(), Op::SimplifySelf);
                                s.expect = Expect::SameAsInput;
                                (s, rng)
                            }
                        };
                        s.k0 = rng.next_u64();
                        s.k1 = rng.next_u64();
                        s.deep = j + 1 == len;
                        for e in &elems[..j] {
                            s.pre.push(pre_of(e));
                        }
                        specs.push(s);
                    }
                }
                }
            }
        }
        // B3g: closed 3-manifolds of all kinds from seeded random face pairings of
        // 1-6 tetrahedra (S^3, lens spaces, S^2 x S^1, connected sums, flat, Seifert
        // and small hyperbolic manifolds; cell structures with faces meeting
        // themselves and edges of degree 1 and 2 that tiling covers never produce).
        // Their topology is not pinned, so only the first clause of C16 is judged:
        // whatever simplify returns is again a manifold D-set (O16.1), also for every
        // intermediate state of the sampled runs; a panic is reported as a note.
        {
            let reps = if thorough { 12 } else { 2 };
            for &(k, sd) in corpus.triangulations.iter() {
                let m = match crate::gen::random_triangulation(k, sd) {
                    Some(m) => m,
                    None => continue,
                };
                let text = m.to_text();
                for r in 0..reps {
                    let (mut s, mut rng) = self.base_spec(&format!("R{}.{}/self", k, sd), &text, Op::SimplifySelf);
                    if r > 0 {
                        s.cxf.push(Xf::Shuffle(rng.next_u64()));
                    }
                    s.repr = Self::c16_repr(&mut rng);
                    s.expect = Expect::Unknown;
                    self.perturb(&mut s, &mut rng, true);
                    if r == 0 && self.hooks {
                        s.rec_states = true;
                    }
                    specs.push(s);
                }
            }
        }
        // B4: branch-free members of G are closed manifolds themselves
        for e in corpus.g.iter().take(corpus.extra_from) {
            let s0 = match Sym::parse(&e.text) {
                Ok(s) => s,
                Err(_) => continue,
            };
            if !s0.all_v_one() {
                continue;
            }
            let reps = if thorough { 8 } else { 2 };
            for r in 0..reps {
                let (mut s, mut rng) = self.base_spec(&format!("{}/self", e.id), &e.text, Op::SimplifySelf);
                if r > 0 {
                    s.cxf.push(Xf::Shuffle(rng.next_u64()));
                }
                s.repr = Self::c16_repr(&mut rng);
                s.expect = Expect::Unknown;
                self.perturb(&mut s, &mut rng, false);
                specs.push(s);
            }
        }
        // B7: pseudo-toroidal covers of the space-group witnesses (tori obtained
        // through every point group / lattice type)
        for (e, chain) in corpus.sg_witnesses.iter() {
            let pre = vec![Xf::Cover { k: chain[0], j: chain[1] }, Xf::Cover { k: chain[2], j: chain[3] }];
            let (cs, keys) = if thorough { (6, 1) } else { (1, 1) };
            self.c16_block(&mut specs, &e.id, &e.text, &pre, 1, cs, keys, Expect::Torus, true);
        }
        // B6: systematic single deviations (seam S): option j at decision i,
        // natural everywhere else, for the first decisions of the corpus inputs
        if self.hooks {
            let (max_ord, max_opt) = if thorough { (8, 16) } else { (3, 6) };
            let mut bases: Vec<(String, String, Vec<Xf>)> = vec![];
            for e in corpus.k0.iter() {
                bases.push((e.id.clone(), e.text.clone(), vec![]));
                bases.push((format!("{}d", e.id), e.text.clone(), vec![Xf::Dual]));
            }
            for (gi, e) in corpus.g.iter().enumerate() {
                if kplus[gi] && census_g[gi].has_ptc() && (thorough || gi < corpus.extra_from) {
                    bases.push((e.id.clone(), e.text.clone(), vec![]));
                }
            }
            for (group, text, pre) in bases {
                for ord in 0..max_ord {
                    for opt in 0..max_opt {
                        let (mut s, mut rng) = self.base_spec(&group, &text, Op::SimplifyPtc);
                        s.xf = pre.clone();
                        s.expect = Expect::Torus;
                        s.known_euclidean = true;
                        s.k0 = rng.next_u64();
                        s.k1 = rng.next_u64();
                        s.steer = vec![(ord, opt)];
                        s.rec_states = opt == 0 && ord == 0;
                        specs.push(s);
                    }
                }
            }
        }
        // B5: pseudo-toroidal covers of verified small covers of the corpus,
        // and of the space-group sweep (covers of the cubic / hexagonal prism
        // tilings with many sheets)
        for (is_sweep, cc) in cover_counts.list.iter().map(|c| (false, c)).chain(sweep.list.iter().map(|c| (true, c))) {
            if !cc.known_euclidean {
                continue;
            }
            for j in 0..cc.count {
                if cc.sheets[j] < 2 {
                    continue;
                }
                let group = format!("{}/c{}.{}", cc.id, cc.k, j);
                let pre = vec![Xf::Cover { k: cc.k, j }];
                let deep = is_sweep && ((cc.text == CUBE && cc.sheets[j] > 48) || (cc.text != CUBE && cc.text != HEX_PRISM && cc.sheets[j] > 8));
                let (cs, keys) = match (thorough, is_sweep) {
                    _ if deep => (1, 1),
                    (false, false) => (3, 1),
                    (true, false) => (60, 2),
                    (false, true) => (1, 1),
                    (true, true) => (4, 1),
                };
                self.c16_block(&mut specs, &group, &cc.text, &pre, 1, cs, keys, Expect::Torus, true);
            }
        }
        specs
    }
}

fn specs_push(out: &mut Vec<Spec>, s: Spec) {
    out.push(s);
}

/// Number of covers with <= k sheets of selected base symbols (builder-side:
/// `covers` is an input builder whose outputs the executor verifies).
pub struct CoverCount {
    pub id: String,
    pub text: String,
    pub k: usize,
    pub count: usize,
    pub sheets: Vec<usize>,
    pub known_euclidean: bool,
}

pub struct CoverCounts {
    pub list: Vec<CoverCount>,
}

impl CoverCounts {
    /// `entries`: (entry, known-euclidean, sheet bound). Computed on 16 threads
    /// (pure builder work; the order of the result is the order of `entries`).
    pub fn compute(entries: &[(&Entry, bool, usize)]) -> CoverCounts {
        let n_threads = 16usize;
        let per_thread: Vec<Vec<(usize, Option<CoverCount>)>> = std::thread::scope(|sc| {
            let handles: Vec<_> = (0..n_threads)
                .map(|t| {
                    sc.spawn(move || {
                        let mut out = vec![];
                        for (i, (e, known, k)) in entries.iter().enumerate().skip(t).step_by(n_threads) {
                            let s = match Sym::parse(&e.text) {
                                Ok(s) => s,
                                Err(_) => {
                                    out.push((i, None));
                                    continue;
                                }
                            };
                            let r = std::panic::catch_unwind(std::panic::AssertUnwindSafe(|| {
                                covers(&s.to_partial(), *k).iter().map(|c| rust_dsymbols::dsets::DSet::size(c) / s.n).collect::<Vec<_>>()
                            }));
                            out.push((
                                i,
                                r.ok().map(|sheets| CoverCount { id: e.id.clone(), text: e.text.clone(), k: *k, count: sheets.len(), sheets, known_euclidean: *known }),
                            ));
                        }
                        out
                    })
                })
                .collect();
            handles.into_iter().map(|h| h.join().unwrap_or_default()).collect()
        });
        let mut all: Vec<(usize, Option<CoverCount>)> = per_thread.into_iter().flatten().collect();
        all.sort_by_key(|x| x.0);
        CoverCounts { list: all.into_iter().filter_map(|x| x.1).collect() }
    }
}

/// K+ : members of G that encode the same tiling as a literal of K0 or its
/// dual. The repository's `minimal_image` only *proposes* the common
/// quotient; membership is decided by the harness's own morphism search in
/// both directions (literal -> M and candidate -> M).
pub fn kplus(corpus: &Corpus) -> (Vec<bool>, usize) {
    let mut quotients: Vec<Sym> = vec![];
    let mut instrument_failures = 0;
    for e in corpus.k0.iter() {
        let s = match Sym::parse(&e.text) {
            Ok(s) => s,
            Err(_) => continue,
        };
        for t in [s.clone(), s.dual()] {
            let m = std::panic::catch_unwind(std::panic::AssertUnwindSafe(|| Sym::from_dsym(&minimal_image(&t.to_partial()))));
            match m {
                Ok(Ok(m)) if m.validate().is_ok() && maps_onto(&t, &m) => {
                    if !quotients.iter().any(|q| q.n == m.n && crate::dsx::isomorphic(q, &m)) {
                        quotients.push(m);
                    }
                }
                _ => instrument_failures += 1,
            }
        }
    }
    let flags = corpus
        .g
        .iter()
        .map(|e| match Sym::parse(&e.text) {
            Ok(g) => quotients.iter().any(|m| maps_onto(&g, m)),
            Err(_) => false,
        })
        .collect();
    (flags, instrument_failures)
}

pub const CUBE: &str = "<1.1:1 3:1,1,1,1:4,3,4>";
pub const HEX_PRISM: &str = "<1.1:2 3:2,1 2,1 2,2:6,3 2,6>";

/// The space-group sweep: covers of the two maximal-symmetry literals.
pub fn sweep_counts(corpus: &Corpus, tier: Tier) -> CoverCounts {
    // cube: 32 sheets in quick (seeded defect S25 first shows on a 27-sheeted cover: an
    // i8 node table overflowing at 129 raw orbifold-graph nodes), 48 in thorough
    let (kc, kh) = if tier == Tier::Thorough { (64, 24) } else { (32, 16) };
    let mut entries: Vec<(&Entry, bool, usize)> = vec![];
    for e in corpus.k0.iter() {
        if e.text == CUBE {
            entries.push((e, true, kc));
        } else if e.text == HEX_PRISM {
            entries.push((e, true, kh));
        }
    }
    // every literal: covers with up to 6 (thorough: 8) sheets (the small-cover blocks stop at
    // 2 / 3 sheets; seeded defect S19 needed the 960-chamber pseudo-toroidal
    // covers of 4-sheeted covers of one literal)
    for e in corpus.k0.iter() {
        if e.text != CUBE && e.text != HEX_PRISM {
            entries.push((e, true, if tier == Tier::Thorough { 12 } else { 6 }));
        }
    }
    CoverCounts::compute(&entries)
}

fn gcd(a: usize, b: usize) -> usize {
    if b == 0 {
        a
    } else {
        gcd(b, a % b)
    }
}
