//! A run specification: everything that determines one simulated execution.
//! `Spec -> Record` is a pure function of the spec and the code under test;
//! replay files are specs plus the expected outcome.

use serde_json::{json, Value};

use crate::dsx::Sym;
use crate::prng::SplitMix64;

#[derive(Clone, Debug, PartialEq)]
pub enum Xf {
    /// full Fisher-Yates shuffle of the chambers from this seed
    Shuffle(u64),
    /// explicit renumbering (1-based, p[0] = 0): new name of old chamber d is p[d]
    Perm(Vec<usize>),
    /// sequence of transpositions of chamber names (the shrinkable form)
    Swaps(Vec<(usize, usize)>),
    Dual,
    /// j-th entry of `covers(s, k)` (builder-side, verified to be a covering)
    Cover { k: usize, j: usize },
}

impl Xf {
    pub fn to_json(&self) -> Value {
        match self {
            Xf::Shuffle(s) => json!({"t": "shuffle", "seed": format!("{:x}", s)}),
            Xf::Perm(p) => json!({"t": "perm", "p": p}),
            Xf::Swaps(l) => json!({"t": "swaps", "list": l.iter().map(|&(a, b)| vec![a, b]).collect::<Vec<_>>()}),
            Xf::Dual => json!({"t": "dual"}),
            Xf::Cover { k, j } => json!({"t": "cover", "k": k, "j": j}),
        }
    }

    pub fn from_json(v: &Value) -> Result<Xf, String> {
        let t = v["t"].as_str().ok_or("xf without t")?;
        Ok(match t {
            "shuffle" => Xf::Shuffle(hex(&v["seed"])?),
            "perm" => Xf::Perm(v["p"].as_array().ok_or("perm.p")?.iter().map(|x| x.as_u64().unwrap_or(0) as usize).collect()),
            "swaps" => Xf::Swaps(
                v["list"]
                    .as_array()
                    .ok_or("swaps.list")?
                    .iter()
                    .map(|x| (x[0].as_u64().unwrap_or(0) as usize, x[1].as_u64().unwrap_or(0) as usize))
                    .collect(),
            ),
            "dual" => Xf::Dual,
            "cover" => Xf::Cover { k: v["k"].as_u64().ok_or("cover.k")? as usize, j: v["j"].as_u64().ok_or("cover.j")? as usize },
            _ => return Err(format!("unknown xf {}", t)),
        })
    }

    /// Apply a renumbering/dual step to a harness symbol (Cover is handled
    /// by the executor, it needs the repository).
    pub fn apply_simple(&self, s: &Sym) -> Result<Sym, String> {
        match self {
            Xf::Shuffle(seed) => Ok(s.shuffled(*seed)),
            Xf::Perm(p) => {
                if p.len() != s.n + 1 {
                    return Err(format!("perm of length {} for symbol of size {}", p.len() - 1, s.n));
                }
                let mut seen = vec![false; s.n + 1];
                for &x in &p[1..] {
                    if x < 1 || x > s.n || std::mem::replace(&mut seen[x], true) {
                        return Err("not a permutation".into());
                    }
                }
                Ok(s.renumbered(p))
            }
            Xf::Swaps(list) => {
                let mut p: Vec<usize> = (0..=s.n).collect();
                for &(a, b) in list {
                    if a < 1 || b < 1 || a > s.n || b > s.n {
                        return Err("swap out of range".into());
                    }
                    p.swap(a, b);
                }
                Ok(s.renumbered(&p))
            }
            Xf::Dual => Ok(s.dual()),
            Xf::Cover { .. } => Err("cover is not a simple transformation".into()),
        }
    }

    /// explicit permutation equivalent to a Shuffle on a symbol of size n
    pub fn explicit(&self, n: usize) -> Xf {
        match self {
            Xf::Shuffle(seed) => Xf::Perm(SplitMix64::new(*seed).permutation(n)),
            other => other.clone(),
        }
    }
}

fn hex(v: &Value) -> Result<u64, String> {
    match v {
        Value::String(s) => u64::from_str_radix(s, 16).map_err(|e| e.to_string()),
        Value::Number(n) => n.as_u64().ok_or_else(|| "bad number".to_string()),
        _ => Err("expected hex string".into()),
    }
}

#[derive(Clone, Copy, Debug, PartialEq, Eq)]
pub enum Op {
    /// C17: `is_euclidean(s)`
    IsEuclidean,
    /// C16: `simplify(cxf(pseudo_toroidal_cover(s)))`
    SimplifyPtc,
    /// C16: `simplify(cxf(finite_universal_cover(s)))`
    SimplifyFuc,
    /// C16: `simplify(cxf(s))`, s itself a branch-free manifold D-set
    SimplifySelf,
}

impl Op {
    pub fn name(&self) -> &'static str {
        match self {
            Op::IsEuclidean => "is_euclidean",
            Op::SimplifyPtc => "simplify_ptc",
            Op::SimplifyFuc => "simplify_fuc",
            Op::SimplifySelf => "simplify_self",
        }
    }
    pub fn parse(s: &str) -> Result<Op, String> {
        Ok(match s {
            "is_euclidean" => Op::IsEuclidean,
            "simplify_ptc" => Op::SimplifyPtc,
            "simplify_fuc" => Op::SimplifyFuc,
            "simplify_self" => Op::SimplifySelf,
            _ => return Err(format!("unknown op {}", s)),
        })
    }
}

/// Which concrete type is handed to the generic function under test (seam T).
#[derive(Clone, Copy, Debug, PartialEq, Eq)]
pub enum Repr {
    PartialDSym,
    SimpleDSym,
    PartialDSet,
    SimpleDSet,
}

impl Repr {
    pub fn name(&self) -> &'static str {
        match self {
            Repr::PartialDSym => "PartialDSym",
            Repr::SimpleDSym => "SimpleDSym",
            Repr::PartialDSet => "PartialDSet",
            Repr::SimpleDSet => "SimpleDSet",
        }
    }
    pub fn parse(s: &str) -> Result<Repr, String> {
        Ok(match s {
            "PartialDSym" => Repr::PartialDSym,
            "SimpleDSym" => Repr::SimpleDSym,
            "PartialDSet" => Repr::PartialDSet,
            "SimpleDSet" => Repr::SimpleDSet,
            _ => return Err(format!("unknown repr {}", s)),
        })
    }
}

/// What the topology oracle O16.2 may assume about the input of `simplify`.
#[derive(Clone, Copy, Debug, PartialEq, Eq)]
pub enum Expect {
    /// pseudo-toroidal cover of a known-euclidean symbol: a 3-torus
    Torus,
    /// finite fundamental group: compare with the input's own invariants
    SameAsInput,
    /// nothing known: only O16.1 / O16.3 / O16.4 apply
    Unknown,
}

impl Expect {
    pub fn name(&self) -> &'static str {
        match self {
            Expect::Torus => "torus",
            Expect::SameAsInput => "same_as_input",
            Expect::Unknown => "unknown",
        }
    }
    pub fn parse(s: &str) -> Result<Expect, String> {
        Ok(match s {
            "torus" => Expect::Torus,
            "same_as_input" => Expect::SameAsInput,
            "unknown" => Expect::Unknown,
            _ => return Err(format!("unknown expect {}", s)),
        })
    }
}

#[derive(Clone, Debug, PartialEq)]
pub struct Spec {
    pub idx: u64,
    pub prop: String,
    /// cross-run oracle group (planner-assigned)
    pub group: String,
    /// for C17 cover groups: the group of the base symbol (O17.3)
    pub parent: Option<String>,
    /// member of the known-euclidean corpus K (O17.5, O16.5, O16.2 torus)
    pub known_euclidean: bool,
    pub base: String,
    pub xf: Vec<Xf>,
    pub repr: Repr,
    pub op: Op,
    /// renumbering applied to the D-set handed to `simplify` (C16 only)
    pub cxf: Vec<Xf>,
    pub expect: Expect,
    /// warm-up library calls on the run thread before the operation
    pub hist: u8,
    pub k0: u64,
    pub k1: u64,
    /// steering (seam S): option index forced at decision ordinal; others natural
    pub steer: Vec<(usize, usize)>,
    /// beyond the last steered ordinal: false = natural, true = option 0
    pub steer_min_beyond: bool,
    /// record intermediate states (seam S; diagnostic)
    pub rec_states: bool,
    /// verify the yes-certificate (O17.4) / full topology oracle on this run
    pub deep: bool,
}

impl Spec {
    pub fn to_json(&self) -> Value {
        json!({
            "idx": self.idx,
            "prop": self.prop,
            "group": self.group,
            "parent": self.parent,
            "known_euclidean": self.known_euclidean,
            "base": self.base,
            "xf": self.xf.iter().map(|x| x.to_json()).collect::<Vec<_>>(),
            "repr": self.repr.name(),
            "op": self.op.name(),
            "cxf": self.cxf.iter().map(|x| x.to_json()).collect::<Vec<_>>(),
            "expect": self.expect.name(),
            "hist": self.hist,
            "k0": format!("{:x}", self.k0),
            "k1": format!("{:x}", self.k1),
            "steer": self.steer.iter().map(|&(a, b)| vec![a, b]).collect::<Vec<_>>(),
            "steer_min_beyond": self.steer_min_beyond,
            "rec_states": self.rec_states,
            "deep": self.deep,
        })
    }

    pub fn from_json(v: &Value) -> Result<Spec, String> {
        let xfs = |key: &str| -> Result<Vec<Xf>, String> {
            match v.get(key).and_then(|x| x.as_array()) {
                None => Ok(vec![]),
                Some(a) => a.iter().map(Xf::from_json).collect(),
            }
        };
        Ok(Spec {
            idx: v["idx"].as_u64().unwrap_or(0),
            prop: v["prop"].as_str().ok_or("prop")?.to_string(),
            group: v["group"].as_str().unwrap_or("").to_string(),
            parent: v.get("parent").and_then(|x| x.as_str()).map(|s| s.to_string()),
            known_euclidean: v["known_euclidean"].as_bool().unwrap_or(false),
            base: v["base"].as_str().ok_or("base")?.to_string(),
            xf: xfs("xf")?,
            repr: Repr::parse(v["repr"].as_str().unwrap_or("PartialDSym"))?,
            op: Op::parse(v["op"].as_str().ok_or("op")?)?,
            cxf: xfs("cxf")?,
            expect: Expect::parse(v["expect"].as_str().unwrap_or("unknown"))?,
            hist: v["hist"].as_u64().unwrap_or(0) as u8,
            k0: hex(&v["k0"])?,
            k1: hex(&v["k1"])?,
            steer: match v.get("steer").and_then(|x| x.as_array()) {
                None => vec![],
                Some(a) => a.iter().map(|x| (x[0].as_u64().unwrap_or(0) as usize, x[1].as_u64().unwrap_or(0) as usize)).collect(),
            },
            steer_min_beyond: v["steer_min_beyond"].as_bool().unwrap_or(false),
            rec_states: v["rec_states"].as_bool().unwrap_or(false),
            deep: v["deep"].as_bool().unwrap_or(false),
        })
    }
}
