//! Coordinator side: absorbs records as they arrive, evaluates the cross-run
//! oracles over the recorded history (O17.2, O17.3, O16.5) and keeps the
//! coverage measurements the evidence file reports.

use std::collections::{BTreeMap, BTreeSet};

use serde_json::{json, Value};

use crate::exec::Record;
use crate::spec::{Op, Spec};

#[derive(Clone, Debug)]
pub struct Violation {
    pub class: String,
    pub detail: String,
    pub group: String,
    /// the specs (1 for per-run classes, 2 for cross-run classes) that show it
    pub witnesses: Vec<Spec>,
    /// the records those specs produced when the violation was observed
    pub records: Vec<Record>,
}

#[derive(Default)]
struct GroupAgg {
    /// outcome key -> (count, first witness)
    outcomes: BTreeMap<String, (u64, Spec, Record)>,
    known: bool,
    parent: Option<String>,
    out_fps: BTreeSet<u64>,
    runs: u64,
}

#[derive(Default)]
pub struct Agg {
    pub prop: String,
    pub evaluations: u64,
    pub judged: u64,
    pub excluded: BTreeMap<String, u64>,
    groups: BTreeMap<String, GroupAgg>,
    children: BTreeMap<String, BTreeSet<String>>,
    pub violations: Vec<Violation>,
    seen_violation_keys: BTreeSet<(String, String)>,
    pub unjudged_outcome_splits: BTreeSet<String>,
    pub verdicts: BTreeMap<String, u64>,
    pub reasons: BTreeMap<String, u64>,
    pub decisions_total: u64,
    pub runs_with_decisions: u64,
    pub nontrivial_traces: BTreeSet<(u64, u64)>,
    pub option_coverage: BTreeSet<(u64, usize, usize, usize)>,
    pub option_universe: BTreeSet<(u64, usize, usize)>,
    pub probes: BTreeMap<String, u64>,
    pub perturb: BTreeMap<String, u64>,
    pub steered_effective: u64,
    pub stale_hook_runs: u64,
    pub inconclusive: BTreeMap<String, u64>,
    pub notes: BTreeMap<String, u64>,
    pub entropy_anomalies: u64,
    pub samples: Vec<Value>,
    pub micros_total: u64,
    pub micros_max: u64,
    pub run_micros_max: u64,
    pub in_size_max: usize,
    pub by_family: BTreeMap<String, u64>,
    pub by_repr: BTreeMap<String, u64>,
    pub by_op: BTreeMap<String, u64>,
    /// explicit call histories: runs by number of earlier calls, earlier calls by kind
    pub pre_len: BTreeMap<String, u64>,
    pub pre_kind: BTreeMap<String, u64>,
    pub certificates_ok: u64,
    pub states_checked: u64,
    pub runs_with_states: u64,
    /// diagnostic only: runs in which some intermediate D-set of simplify
    /// failed the manifold / H1-sum invariant (kind -> count)
    pub bad_intermediate_states: BTreeMap<String, u64>,
    pub distinct_inputs: BTreeSet<u64>,
    /// (input, output) fingerprints of runs that got past the invariant
    /// filter / reached simplify (fallback measure without the hook build)
    pub deep_pairs: BTreeSet<(u64, u64)>,
    /// orbifold invariant strings (space-group table keys) seen with verdict yes
    pub inv_seen: BTreeSet<String>,
    pub distinct_states: BTreeSet<u64>,
}

fn bump(m: &mut BTreeMap<String, u64>, k: &str) {
    *m.entry(k.to_string()).or_insert(0) += 1;
}

fn family(group: &str) -> String {
    let head: String = group.chars().take_while(|c| c.is_ascii_alphabetic()).collect();
    let kind = if group.starts_with('W') {
        "space-group-witness"
    } else if group.contains("/c") {
        "cover"
    } else if group.contains("/fuc") {
        "fuc"
    } else if group.contains("/sub") {
        "manifold-cover"
    } else if group.starts_with('Q') && group.contains("/self") {
        "one-cube-manifold"
    } else if group.starts_with('L') && group.contains("/self") {
        "lens-space"
    } else if group.starts_with('R') && group.contains("/self") {
        "random-triangulation"
    } else if group.contains("/self") {
        "self"
    } else {
        "base"
    };
    format!("{}:{}", head, kind)
}

impl Agg {
    pub fn new(prop: &str) -> Agg {
        Agg { prop: prop.to_string(), ..Default::default() }
    }

    fn push_violation(&mut self, v: Violation) -> bool {
        let key = (v.class.clone(), v.group.clone());
        if self.seen_violation_keys.insert(key) {
            self.violations.push(v);
            true
        } else {
            false
        }
    }

    /// Returns the indices (into self.violations) of violations first seen
    /// with this record.
    pub fn absorb(&mut self, spec: &Spec, rec: &Record, judge: bool) -> Vec<usize> {
        let before = self.violations.len();
        self.evaluations += 1;
        self.micros_total += rec.micros;
        self.micros_max = self.micros_max.max(rec.micros);
        self.run_micros_max = self.run_micros_max.max(rec.run_micros);
        if rec.status != "ran" {
            let reason = rec.excluded_reason.split(':').next().unwrap_or("").to_string();
            bump(&mut self.excluded, &reason);
            return vec![];
        }
        if !judge {
            return vec![];
        }
        self.judged += 1;
        self.in_size_max = self.in_size_max.max(rec.in_size);
        bump(&mut self.by_family, &family(&spec.group));
        bump(&mut self.by_repr, spec.repr.name());
        bump(&mut self.by_op, spec.op.name());
        self.distinct_inputs.insert(rec.input_fp);
        let shallow = spec.op == Op::IsEuclidean && rec.outcome == "no" && (rec.detail == crate::plan::REASON_INVARIANTS || rec.detail == crate::plan::REASON_NO_COVER);
        if !shallow {
            self.deep_pairs.insert((rec.input_fp, rec.out_fp));
        }
        // perturbation census: what was actually injected in this run
        if spec.k0 == 0 && spec.k1 == 0 && spec.steer.is_empty() {
            bump(&mut self.perturb, "control_fixed_keys");
        } else {
            bump(&mut self.perturb, "hash_key");
        }
        if spec.hist > 0 {
            bump(&mut self.perturb, "history_offset");
        }
        if !spec.pre.is_empty() {
            bump(&mut self.perturb, "explicit_call_history");
            bump(&mut self.pre_len, &format!("{:02}", spec.pre.len()));
            if rec.aborts_fired > 0 {
                *self.perturb.entry("injected_abort_fired_in_an_earlier_call".to_string()).or_insert(0) += rec.aborts_fired;
            }
            for p in &spec.pre {
                bump(&mut self.pre_kind, p.op.name());
                if p.shuffle.is_some() {
                    bump(&mut self.pre_kind, "renumbered");
                }
                if p.abort_at.is_some() {
                    bump(&mut self.pre_kind, "abort_requested");
                }
                if p.base == spec.base {
                    bump(&mut self.pre_kind, "same_base_symbol_as_the_run");
                }
            }
        }
        if !spec.steer.is_empty() || spec.steer_min_beyond {
            bump(&mut self.perturb, "steered_requested");
            if rec.decisions.iter().any(|&(_, t, nat)| t != nat) {
                self.steered_effective += 1;
            }
        }
        if rec.stale_hook {
            self.stale_hook_runs += 1;
        }
        if rec.entropy_calls > 1 {
            self.entropy_anomalies += 1;
        }
        for n in &rec.inconclusive {
            let k = n.split(':').next().unwrap_or("");
            bump(&mut self.inconclusive, k);
        }
        for n in &rec.notes {
            if n.starts_with("filter:") {
                continue;
            }
            if let Some(inv) = n.strip_prefix("inv:") {
                self.inv_seen.insert(inv.to_string());
                continue;
            }
            bump(&mut self.notes, n);
            if n == "certificate_ok" {
                self.certificates_ok += 1;
            }
        }
        for (k, v) in &rec.probes {
            *self.probes.entry(k.clone()).or_insert(0) += v;
        }
        for f in &rec.state_fps {
            self.distinct_states.insert(*f);
        }
        if rec.states_checked > 0 {
            self.states_checked += rec.states_checked as u64;
            self.runs_with_states += 1;
        }
        if let Some(b) = &rec.first_bad_state {
            let kind = if b.ends_with("empty") { "became empty (result None)" } else if b.contains("sum of H1") { "H1 sum changed" } else { "not a manifold" };
            bump(&mut self.bad_intermediate_states, kind);
        }
        // decision coverage
        if !rec.decisions.is_empty() {
            self.runs_with_decisions += 1;
            self.decisions_total += rec.decisions.len() as u64;
            if rec.decisions.iter().any(|&(n, _, _)| n >= 2) {
                self.nontrivial_traces.insert((rec.input_fp, rec.decision_trace_fp()));
            }
            for (ord, &(n, t, _)) in rec.decisions.iter().enumerate().take(8) {
                self.option_coverage.insert((rec.input_fp, ord, n, t));
                self.option_universe.insert((rec.input_fp, ord, n));
            }
        }
        bump(&mut self.verdicts, &rec.outcome);
        if spec.op == Op::IsEuclidean {
            bump(&mut self.reasons, &format!("{}: {}", rec.outcome, if rec.outcome == "panic" { "(panic)" } else { &rec.detail }));
        }
        // a couple of trivial runs, then runs that passed hash-order decisions
        // (spread over the batch), steered ones included
        let nontrivial = rec.decisions.iter().any(|&(n, _, _)| n >= 2);
        if self.samples.len() < 2 || (self.samples.len() < 12 && nontrivial && (self.evaluations % 211 == 0 || (!spec.steer.is_empty() && self.evaluations % 13 == 0))) {
            self.samples.push(json!({"spec": spec.to_json(), "record": rec.log_json()}));
        }

        // per-run oracle failures
        for (class, detail) in &rec.failures {
            self.push_violation(Violation { class: class.clone(), detail: detail.clone(), group: spec.group.clone(), witnesses: vec![spec.clone()], records: vec![rec.clone()] });
        }

        // cross-run oracles
        let key: Option<String> = match spec.op {
            Op::IsEuclidean => match rec.outcome.as_str() {
                "yes" | "no" | "maybe" => Some(rec.outcome.clone()),
                _ => None,
            },
            _ => match rec.outcome.as_str() {
                "none" => Some("none".into()),
                "some" if rec.detail != "invalid" => Some(rec.detail.clone()),
                _ => None,
            },
        };
        if let Some(key) = key {
            let g = self.groups.entry(spec.group.clone()).or_default();
            g.known |= spec.known_euclidean;
            g.runs += 1;
            g.out_fps.insert(rec.out_fp);
            if g.parent.is_none() {
                g.parent = spec.parent.clone();
            }
            let is_new = !g.outcomes.contains_key(&key);
            g.outcomes.entry(key.clone()).or_insert((0, spec.clone(), rec.clone())).0 += 1;
            if let Some(p) = &spec.parent {
                self.children.entry(p.clone()).or_default().insert(spec.group.clone());
            }
            if is_new {
                let g = &self.groups[&spec.group];
                if g.outcomes.len() >= 2 {
                    let others: Vec<(String, Spec, Record)> =
                        g.outcomes.iter().filter(|(k, _)| **k != key).map(|(k, v)| (k.clone(), v.1.clone(), v.2.clone())).collect();
                    let known = g.known;
                    let (other_key, other_spec, other_rec) = others[0].clone();
                    if spec.op == Op::IsEuclidean {
                        let mut pair = [key.clone(), other_key.clone()];
                        pair.sort();
                        self.push_violation(Violation {
                            class: format!("O17.2:{}-vs-{}", pair[0], pair[1]),
                            detail: format!("verdict class differs within group {} (same symbol up to renumbering/dual/representation/hash keys)", spec.group),
                            group: spec.group.clone(),
                            witnesses: vec![other_spec, spec.clone()],
                            records: vec![other_rec, rec.clone()],
                        });
                    } else if known {
                        let kind = if key == "none" || other_key == "none" {
                            "none-vs-some"
                        } else if key.starts_with("disconnected") || other_key.starts_with("disconnected") {
                            "connected-vs-disconnected"
                        } else {
                            "different-images"
                        };
                        self.push_violation(Violation {
                            class: format!("O16.5:{}", kind),
                            detail: format!("outcomes {:?} and {:?} for the same known-euclidean input (group {})", other_key, key, spec.group),
                            group: spec.group.clone(),
                            witnesses: vec![other_spec, spec.clone()],
                            records: vec![other_rec, rec.clone()],
                        });
                    } else {
                        self.unjudged_outcome_splits.insert(spec.group.clone());
                    }
                }
                // O17.3 along covers
                if spec.op == Op::IsEuclidean {
                    let mut pairs: Vec<(String, String)> = vec![];
                    if let Some(p) = &spec.parent {
                        pairs.push((p.clone(), spec.group.clone()));
                    }
                    if let Some(ch) = self.children.get(&spec.group) {
                        for c in ch {
                            pairs.push((spec.group.clone(), c.clone()));
                        }
                    }
                    let mut found: Vec<Violation> = vec![];
                    for (p, c) in pairs {
                        let (gp, gc) = match (self.groups.get(&p), self.groups.get(&c)) {
                            (Some(a), Some(b)) => (a, b),
                            _ => continue,
                        };
                        for (a, b) in [("yes", "no"), ("no", "yes")] {
                            if let (Some(wa), Some(wb)) = (gp.outcomes.get(a), gc.outcomes.get(b)) {
                                found.push(Violation {
                                    class: format!("O17.3:base-{}-cover-{}", a, b),
                                    detail: format!("base group {} has verdict {}, its cover group {} has verdict {}", p, a, c, b),
                                    group: c.clone(),
                                    witnesses: vec![wa.1.clone(), wb.1.clone()],
                                    records: vec![wa.2.clone(), wb.2.clone()],
                                });
                            }
                        }
                    }
                    for v in found {
                        self.push_violation(v);
                    }
                }
            }
        }
        (before..self.violations.len()).collect()
    }

    pub fn group_count(&self) -> usize {
        self.groups.len()
    }

    pub fn distinct_outputs_histogram(&self) -> BTreeMap<String, u64> {
        let mut h = BTreeMap::new();
        for g in self.groups.values() {
            let k = g.out_fps.len();
            let label = if k >= 16 { "16+".to_string() } else { k.to_string() };
            *h.entry(label).or_insert(0) += 1;
        }
        h
    }

    pub fn groups_with_multiple_runs(&self) -> usize {
        self.groups.values().filter(|g| g.runs >= 2).count()
    }

    pub fn group_outcomes(&self, group: &str) -> Vec<(String, u64)> {
        self.groups.get(group).map(|g| g.outcomes.iter().map(|(k, v)| (k.clone(), v.0)).collect()).unwrap_or_default()
    }
}
