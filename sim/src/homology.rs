//! Independent instruments for the topological oracles: first homology of
//! the orbifold fundamental group of a connected D-symbol from the textbook
//! presentation, by an own exact Smith normal form. Uses nothing of the
//! repository's fundamental_group / abelian_invariants code.

use crate::dsx::Sym;

/// Invariant factors: ascending list of the factors > 1, followed by one 0
/// per free generator. `Err` only on i128 overflow (never observed; the
/// caller treats it as "instrument inconclusive", not as a violation).
pub fn h1(s: &Sym) -> Result<Vec<u64>, String> {
    assert!(s.is_connected(), "h1 needs a connected symbol");
    let n = s.n;
    let dim = s.dim;
    // variables: one per facet pair {d, op_i d}
    let mut var = vec![vec![usize::MAX; n + 1]; dim + 1];
    let mut nvars = 0;
    for i in 0..=dim {
        for d in 1..=n {
            if var[i][d] == usize::MAX {
                var[i][d] = nvars;
                var[i][s.op[i][d]] = nvars;
                nvars += 1;
            }
        }
    }
    // spanning tree: those variables are trivial
    let mut dead = vec![false; nvars];
    let mut seen = vec![false; n + 1];
    seen[1] = true;
    let mut queue = vec![1usize];
    let mut k = 0;
    while k < queue.len() {
        let d = queue[k];
        k += 1;
        for i in 0..=dim {
            let e = s.op[i][d];
            if !seen[e] {
                seen[e] = true;
                dead[var[i][d]] = true;
                queue.push(e);
            }
        }
    }
    let mut col_of = vec![usize::MAX; nvars];
    let mut ncols = 0;
    for x in 0..nvars {
        if !dead[x] {
            col_of[x] = ncols;
            ncols += 1;
        }
    }
    let sign = |i: usize, d: usize| -> i128 {
        let e = s.op[i][d];
        if d < e {
            1
        } else if d > e {
            -1
        } else {
            1
        }
    };
    let mut rows: Vec<Vec<i128>> = vec![];
    // mirrors: g^2 = 1
    for i in 0..=dim {
        for d in 1..=n {
            if s.op[i][d] == d && !dead[var[i][d]] {
                let mut row = vec![0i128; ncols];
                row[col_of[var[i][d]]] = 2;
                rows.push(row);
            }
        }
    }
    // 2-orbit relators
    for i in 0..=dim {
        for j in (i + 1)..=dim {
            for orb in s.orbits(&[i, j]) {
                let d0 = orb[0];
                let mut row = vec![0i128; ncols];
                let mut e = d0;
                let mut r = 0usize;
                loop {
                    for &idx in &[i, j] {
                        let x = var[idx][e];
                        if !dead[x] {
                            row[col_of[x]] += sign(idx, e);
                        }
                        e = s.op[idx][e];
                    }
                    r += 1;
                    if e == d0 {
                        break;
                    }
                    if r > 2 * n {
                        return Err("orbit walk does not close".into());
                    }
                }
                let v = if j == i + 1 {
                    s.v[i][d0] as i128
                } else {
                    // far indices: m = 2
                    if r > 2 || 2 % r != 0 {
                        return Err("far indices do not commute".into());
                    }
                    (2 / r) as i128
                };
                for x in row.iter_mut() {
                    *x *= v;
                }
                if row.iter().any(|&x| x != 0) {
                    rows.push(row);
                }
            }
        }
    }
    let diag = smith_diagonal(rows, ncols)?;
    let mut out: Vec<u64> = vec![];
    let mut rank = 0;
    for d in diag {
        if d != 0 {
            rank += 1;
            if d != 1 {
                out.push(u64::try_from(d).map_err(|_| "factor too large".to_string())?);
            }
        }
    }
    out.sort();
    for _ in rank..ncols {
        out.push(0);
    }
    Ok(out)
}

/// Number of conjugacy classes of subgroups of index <= 2, from H1 alone:
/// 1 + (2^k - 1), k = dim Hom(G, Z/2).
pub fn index2_class_count(h1: &[u64]) -> u64 {
    let k = h1.iter().filter(|&&d| d % 2 == 0).count() as u32;
    1u64 << k
}

fn ck(x: Option<i128>) -> Result<i128, String> {
    x.ok_or_else(|| "i128 overflow in Smith normal form".to_string())
}

/// Diagonalise an integer matrix by row/column operations so that each
/// diagonal entry divides the next; returns |diagonal| (length = #pivots).
pub fn smith_diagonal(mut a: Vec<Vec<i128>>, ncols: usize) -> Result<Vec<i128>, String> {
    let nrows = a.len();
    let mut diag = vec![];
    let mut t = 0;
    while t < nrows && t < ncols {
        // pivot: smallest non-zero |entry| in the remaining block
        let mut best: Option<(usize, usize, i128)> = None;
        'search: for r in t..nrows {
            for c in t..ncols {
                let x = a[r][c].abs();
                if x != 0 && best.map_or(true, |(_, _, b)| x < b) {
                    best = Some((r, c, x));
                    if x == 1 {
                        break 'search;
                    }
                }
            }
        }
        let (pr, pc, _) = match best {
            None => break,
            Some(b) => b,
        };
        a.swap(t, pr);
        if pc != t {
            for row in a.iter_mut() {
                row.swap(t, pc);
            }
        }
        loop {
            let mut dirty = false;
            // clear column t below/above the pivot (rows > t only; rows < t are done)
            for r in (t + 1)..nrows {
                if a[r][t] != 0 {
                    let p = a[t][t];
                    let q = a[r][t].div_euclid(p);
                    if q != 0 {
                        let cols: Vec<usize> = (t..ncols).filter(|&c| a[t][c] != 0).collect();
                        for c in cols {
                            let delta = ck(q.checked_mul(a[t][c]))?;
                            a[r][c] = ck(a[r][c].checked_sub(delta))?;
                        }
                    }
                    if a[r][t] != 0 {
                        // remainder smaller than pivot: swap and continue
                        a.swap(t, r);
                        dirty = true;
                    }
                }
            }
            // clear row t right of the pivot
            for c in (t + 1)..ncols {
                if a[t][c] != 0 {
                    let p = a[t][t];
                    let q = a[t][c].div_euclid(p);
                    if q != 0 {
                        for r in t..nrows {
                            if a[r][t] != 0 {
                                let delta = ck(q.checked_mul(a[r][t]))?;
                                a[r][c] = ck(a[r][c].checked_sub(delta))?;
                            }
                        }
                    }
                    if a[t][c] != 0 {
                        for row in a.iter_mut().skip(t) {
                            row.swap(t, c);
                        }
                        dirty = true;
                    }
                }
            }
            if dirty {
                continue;
            }
            // divisibility: pivot must divide everything that is left
            let p = a[t][t];
            let mut bad: Option<usize> = None;
            'div: for r in (t + 1)..nrows {
                for c in (t + 1)..ncols {
                    if a[r][c] % p != 0 {
                        bad = Some(r);
                        break 'div;
                    }
                }
            }
            match bad {
                None => break,
                Some(r) => {
                    for c in t..ncols {
                        let x = a[r][c];
                        a[t][c] = ck(a[t][c].checked_add(x))?;
                    }
                }
            }
        }
        diag.push(a[t][t].abs());
        t += 1;
    }
    Ok(diag)
}

#[cfg(test)]
mod tests {
    use super::*;

    #[test]
    fn snf_basic() {
        let d = smith_diagonal(vec![vec![2, 4, 4], vec![-6, 6, 12], vec![10, -4, -16]], 3).unwrap();
        assert_eq!(d, vec![2, 6, 12]);
        let d = smith_diagonal(vec![vec![2, 0], vec![0, 3]], 2).unwrap();
        assert_eq!(d, vec![1, 6]);
    }

    #[test]
    fn h1_cube_orbifold() {
        // orbifold group of the cubic tiling symbol: finite abelianisation
        let s = Sym::parse("<1.1:1 3:1,1,1,1:4,3,4>").unwrap();
        let h = h1(&s).unwrap();
        assert_eq!(h, vec![2, 2, 2]);
    }
}
