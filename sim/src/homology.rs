//! Independent instruments for the topological oracles: first homology of
//! the orbifold fundamental group of a connected D-symbol from the textbook
//! presentation, by an own exact Smith normal form. Uses nothing of the
//! repository's fundamental_group / abelian_invariants code.

use num_bigint::BigInt;
use num_integer::Integer;
use num_traits::{One, Signed, Zero};

use crate::dsx::Sym;

/// Invariant factors: ascending list of the factors > 1, followed by one 0
/// per free generator. `Err` only on i128 overflow (never observed; the
/// caller treats it as "instrument inconclusive", not as a violation).
pub fn h1(s: &Sym) -> Result<Vec<u64>, String> {
    assert!(s.is_connected(), "h1 needs a connected symbol");
    let n = s.n;
    let dim = s.dim;
    // variables: one per facet pair {d, op_i d}
    let mut var = vec![vec![usize::MAX; n + 1]; dim + 1];
    let mut nvars = 0;
    for i in 0..=dim {
        for d in 1..=n {
            if var[i][d] == usize::MAX {
                var[i][d] = nvars;
                var[i][s.op[i][d]] = nvars;
                nvars += 1;
            }
        }
    }
    // spanning tree: those variables are trivial
    let mut dead = vec![false; nvars];
    let mut seen = vec![false; n + 1];
    seen[1] = true;
    let mut queue = vec![1usize];
    let mut k = 0;
    while k < queue.len() {
        let d = queue[k];
        k += 1;
        for i in 0..=dim {
            let e = s.op[i][d];
            if !seen[e] {
                seen[e] = true;
                dead[var[i][d]] = true;
                queue.push(e);
            }
        }
    }
    let mut col_of = vec![usize::MAX; nvars];
    let mut ncols = 0;
    for x in 0..nvars {
        if !dead[x] {
            col_of[x] = ncols;
            ncols += 1;
        }
    }
    let sign = |i: usize, d: usize| -> i128 {
        let e = s.op[i][d];
        if d < e {
            1
        } else if d > e {
            -1
        } else {
            1
        }
    };
    let mut rows: Vec<std::collections::BTreeMap<usize, i128>> = vec![];
    // mirrors: g^2 = 1
    for i in 0..=dim {
        for d in 1..=n {
            if s.op[i][d] == d && !dead[var[i][d]] {
                let mut row = std::collections::BTreeMap::new();
                row.insert(col_of[var[i][d]], 2i128);
                rows.push(row);
            }
        }
    }
    // 2-orbit relators
    for i in 0..=dim {
        for j in (i + 1)..=dim {
            for orb in s.orbits(&[i, j]) {
                let d0 = orb[0];
                let mut row: std::collections::BTreeMap<usize, i128> = std::collections::BTreeMap::new();
                let mut e = d0;
                let mut r = 0usize;
                loop {
                    for &idx in &[i, j] {
                        let x = var[idx][e];
                        if !dead[x] {
                            *row.entry(col_of[x]).or_insert(0) += sign(idx, e);
                        }
                        e = s.op[idx][e];
                    }
                    r += 1;
                    if e == d0 {
                        break;
                    }
                    if r > 2 * n {
                        return Err("orbit walk does not close".into());
                    }
                }
                let v = if j == i + 1 {
                    s.v[i][d0] as i128
                } else {
                    // far indices: m = 2
                    if r > 2 || 2 % r != 0 {
                        return Err("far indices do not commute".into());
                    }
                    (2 / r) as i128
                };
                for x in row.values_mut() {
                    *x *= v;
                }
                row.retain(|_, x| *x != 0);
                if !row.is_empty() {
                    rows.push(row);
                }
            }
        }
    }
    let diag = match invariant_factors_sparse_rows(rows.clone(), ncols) {
        Ok(d) => d,
        // overflow in the i128 sparse phase: arbitrary precision, dense
        Err(_) => {
            let dense: Vec<Vec<i128>> = rows
                .iter()
                .map(|r| {
                    let mut d = vec![0i128; ncols];
                    for (&c, &v) in r.iter() {
                        d[c] = v;
                    }
                    d
                })
                .collect();
            smith_diagonal(dense, ncols)?
        }
    };
    let mut out: Vec<u64> = vec![];
    let mut rank = 0;
    for d in diag {
        if d != 0 {
            rank += 1;
            if d != 1 {
                out.push(u64::try_from(d).map_err(|_| "factor too large".to_string())?);
            }
        }
    }
    out.sort();
    for _ in rank..ncols {
        out.push(0);
    }
    Ok(out)
}

/// Number of conjugacy classes of subgroups of index <= 2, from H1 alone:
/// 1 + (2^k - 1), k = dim Hom(G, Z/2).
pub fn index2_class_count(h1: &[u64]) -> u64 {
    let k = h1.iter().filter(|&&d| d % 2 == 0).count() as u32;
    1u64 << k
}

/// Same result as `smith_diagonal` (as a multiset of non-zero diagonal
/// entries), but first removes all pivots equal to +-1 on a sparse
/// representation: a unit pivot at (r, c) contributes a factor 1 and leaves
/// the Schur complement, i.e. the other rows with column c eliminated. For
/// cell complexes of manifolds almost everything goes this way and the dense
/// Smith normal form only sees a tiny core.
pub fn invariant_factors_sparse(dense: Vec<Vec<i128>>, ncols: usize) -> Result<Vec<i128>, String> {
    let rows: Vec<std::collections::BTreeMap<usize, i128>> = dense
        .into_iter()
        .map(|r| r.into_iter().enumerate().filter(|&(_, v)| v != 0).collect())
        .collect();
    invariant_factors_sparse_rows(rows, ncols)
}

pub fn invariant_factors_sparse_rows(mut rows: Vec<std::collections::BTreeMap<usize, i128>>, ncols: usize) -> Result<Vec<i128>, String> {
    use std::collections::{BTreeMap, BTreeSet};
    let mut col_rows: Vec<BTreeSet<usize>> = vec![BTreeSet::new(); ncols];
    for (i, r) in rows.iter().enumerate() {
        for &c in r.keys() {
            col_rows[c].insert(i);
        }
    }
    let mut col_dead = vec![false; ncols];
    let mut units = 0usize;
    // rows that may contain a unit entry
    let mut todo: BTreeSet<usize> = (0..rows.len()).collect();
    while let Some(&r) = todo.iter().next() {
        todo.remove(&r);
        // sparsest column among the unit entries of this row
        let pivot = rows[r].iter().filter(|(_, &v)| v == 1 || v == -1).min_by_key(|(&c, _)| col_rows[c].len()).map(|(&c, &v)| (c, v));
        let (c, pv) = match pivot {
            None => continue,
            Some(p) => p,
        };
        let prow = std::mem::take(&mut rows[r]);
        for &cc in prow.keys() {
            col_rows[cc].remove(&r);
        }
        let others: Vec<usize> = col_rows[c].iter().cloned().collect();
        for r2 in others {
            let f = rows[r2][&c] * pv; // pv = +-1, so f * pv * pv = entry
            for (&cc, &v) in prow.iter() {
                let delta = ck(f.checked_mul(v))?;
                let e = rows[r2].entry(cc).or_insert(0);
                *e = ck(e.checked_sub(delta))?;
                if *e == 0 {
                    rows[r2].remove(&cc);
                    col_rows[cc].remove(&r2);
                } else {
                    col_rows[cc].insert(r2);
                }
            }
            todo.insert(r2);
        }
        col_dead[c] = true;
        col_rows[c].clear();
        units += 1;
    }
    // dense core
    let live_cols: Vec<usize> = (0..ncols).filter(|&c| !col_dead[c]).collect();
    let mut idx = vec![usize::MAX; ncols];
    for (k, &c) in live_cols.iter().enumerate() {
        idx[c] = k;
    }
    let core: Vec<Vec<i128>> = rows
        .iter()
        .filter(|r| !r.is_empty())
        .map(|r| {
            let mut d = vec![0i128; live_cols.len()];
            for (&c, &v) in r.iter() {
                d[idx[c]] = v;
            }
            d
        })
        .collect();
    let mut diag = vec![1i128; units];
    diag.extend(smith_diagonal(core, live_cols.len())?);
    Ok(diag)
}

fn ck(x: Option<i128>) -> Result<i128, String> {
    x.ok_or_else(|| "i128 overflow in Smith normal form".to_string())
}

/// Diagonalise an integer matrix by row/column operations so that each
/// diagonal entry divides the next; returns |diagonal| (length = #pivots).
/// Arbitrary precision: naive integer elimination can swell far beyond i128
/// even for 7x6 matrices with entries in -3..3 (found by the unit test).
pub fn smith_diagonal_big(mut a: Vec<Vec<BigInt>>, ncols: usize) -> Vec<BigInt> {
    let nrows = a.len();
    let zero = BigInt::zero();
    let mut diag = vec![];
    let mut t = 0;
    while t < nrows && t < ncols {
        // pivot: smallest non-zero |entry| in the remaining block
        let mut best: Option<(usize, usize, BigInt)> = None;
        'search: for r in t..nrows {
            for c in t..ncols {
                if a[r][c] != zero {
                    let x = a[r][c].abs();
                    if best.as_ref().map_or(true, |(_, _, b)| &x < b) {
                        let unit = x.is_one();
                        best = Some((r, c, x));
                        if unit {
                            break 'search;
                        }
                    }
                }
            }
        }
        let (pr, pc, _) = match best {
            None => break,
            Some(b) => b,
        };
        a.swap(t, pr);
        if pc != t {
            for row in a.iter_mut() {
                row.swap(t, pc);
            }
        }
        loop {
            let mut dirty = false;
            for r in (t + 1)..nrows {
                if a[r][t] != zero {
                    let p = a[t][t].clone();
                    let q = a[r][t].div_floor(&p);
                    if q != zero {
                        for c in t..ncols {
                            if a[t][c] != zero {
                                let delta = &q * &a[t][c];
                                a[r][c] -= delta;
                            }
                        }
                    }
                    if a[r][t] != zero {
                        a.swap(t, r);
                        dirty = true;
                    }
                }
            }
            for c in (t + 1)..ncols {
                if a[t][c] != zero {
                    let p = a[t][t].clone();
                    let q = a[t][c].div_floor(&p);
                    if q != zero {
                        for r in t..nrows {
                            if a[r][t] != zero {
                                let delta = &q * &a[r][t];
                                a[r][c] -= delta;
                            }
                        }
                    }
                    if a[t][c] != zero {
                        for row in a.iter_mut().skip(t) {
                            row.swap(t, c);
                        }
                        dirty = true;
                    }
                }
            }
            if dirty {
                continue;
            }
            let p = a[t][t].clone();
            let mut bad: Option<usize> = None;
            'div: for r in (t + 1)..nrows {
                for c in (t + 1)..ncols {
                    if !(&a[r][c] % &p).is_zero() {
                        bad = Some(r);
                        break 'div;
                    }
                }
            }
            match bad {
                None => break,
                Some(r) => {
                    for c in t..ncols {
                        let x = a[r][c].clone();
                        a[t][c] += x;
                    }
                }
            }
        }
        diag.push(a[t][t].abs());
        t += 1;
    }
    diag
}

/// i128 front end of `smith_diagonal_big`; `Err` only if a factor does not
/// fit into i128.
pub fn smith_diagonal(a: Vec<Vec<i128>>, ncols: usize) -> Result<Vec<i128>, String> {
    let big: Vec<Vec<BigInt>> = a.into_iter().map(|r| r.into_iter().map(BigInt::from).collect()).collect();
    smith_diagonal_big(big, ncols)
        .into_iter()
        .map(|d| i128::try_from(d).map_err(|_| "invariant factor does not fit into i128".to_string()))
        .collect()
}

#[cfg(test)]
mod tests {
    use super::*;

    #[test]
    fn snf_basic() {
        let d = smith_diagonal(vec![vec![2, 4, 4], vec![-6, 6, 12], vec![10, -4, -16]], 3).unwrap();
        assert_eq!(d, vec![2, 6, 12]);
        let d = smith_diagonal(vec![vec![2, 0], vec![0, 3]], 2).unwrap();
        assert_eq!(d, vec![1, 6]);
    }

    #[test]
    fn sparse_agrees_with_dense() {
        let mut rng = crate::prng::SplitMix64::new(7);
        for _ in 0..300 {
            let (nr, nc) = (1 + rng.below(7), 1 + rng.below(7));
            let m: Vec<Vec<i128>> = (0..nr).map(|_| (0..nc).map(|_| rng.below(7) as i128 - 3).collect()).collect();
            let mut a: Vec<i128> = smith_diagonal(m.clone(), nc).unwrap().into_iter().filter(|&x| x != 0).collect();
            let mut b: Vec<i128> = invariant_factors_sparse(m, nc).unwrap().into_iter().filter(|&x| x != 0).collect();
            a.sort();
            b.sort();
            // compare as abelian groups: product and the full factor lists after normalisation
            let norm = |v: &Vec<i128>| -> Vec<i128> { smith_diagonal(v.iter().enumerate().map(|(i, &x)| { let mut r = vec![0; v.len()]; r[i] = x; r }).collect(), v.len()).unwrap() };
            assert_eq!(norm(&a), norm(&b));
        }
    }

    #[test]
    fn h1_cube_orbifold() {
        // orbifold group of the cubic tiling symbol: finite abelianisation
        let s = Sym::parse("<1.1:1 3:1,1,1,1:4,3,4>").unwrap();
        let h = h1(&s).unwrap();
        assert_eq!(h, vec![2, 2, 2]);
    }
}

