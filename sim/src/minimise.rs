//! Shrinking of a failing run (input and schedule) while the same violation
//! class persists. Candidates are executed in worker processes, a round of
//! candidates at a time.

use crate::dsx::Sym;
use crate::exec::Record;
use crate::pool::{run_collect, PoolConfig};
use crate::spec::{Repr, Spec, Xf};

/// Predicate "this record still shows the failure we are shrinking".
pub type Pred<'a> = &'a dyn Fn(&Record) -> bool;

pub struct Shrinker<'a> {
    pub cfg: &'a PoolConfig,
    pub evaluations: usize,
    pub budget: usize,
    /// wall-clock cap for the whole minimisation
    pub deadline: std::time::Instant,
}

impl<'a> Shrinker<'a> {
    /// Evaluate candidates in parallel; index of the first that still fails.
    fn first_failing(&mut self, cands: &[Spec], pred: Pred) -> Option<usize> {
        if cands.is_empty() || self.evaluations >= self.budget || std::time::Instant::now() > self.deadline {
            return None;
        }
        self.evaluations += cands.len();
        let recs = run_collect(cands, self.cfg);
        recs.iter().position(|r| r.as_ref().map_or(false, |r| r.status == "ran" && pred(r)))
    }

    fn try_one(&mut self, cand: &Spec, pred: Pred) -> bool {
        self.first_failing(std::slice::from_ref(cand), pred).is_some()
    }

    pub fn shrink(&mut self, spec: &Spec, first: &Record, pred: Pred) -> Spec {
        let mut cur = spec.clone();
        // cheap simplifications first
        for f in [
            (|s: &mut Spec| s.hist = 0) as fn(&mut Spec),
            |s: &mut Spec| s.repr = Repr::PartialDSym,
            |s: &mut Spec| s.rec_states = false,
        ] {
            let mut c = cur.clone();
            f(&mut c);
            if c != cur && self.try_one(&c, pred) {
                cur = c;
            }
        }
        // explicit call history: drop earlier calls one by one
        let mut k = 0;
        while k < cur.pre.len() {
            let mut c = cur.clone();
            c.pre.remove(k);
            if self.try_one(&c, pred) {
                cur = c;
            } else {
                k += 1;
            }
        }
        // steering entries
        let mut k = 0;
        while k < cur.steer.len() {
            let mut c = cur.clone();
            c.steer.remove(k);
            if self.try_one(&c, pred) {
                cur = c;
            } else {
                k += 1;
            }
        }
        // drop whole transformation steps (never the Cover step: it defines the group)
        for in_cxf in [false, true] {
            let mut k = 0;
            loop {
                let list = if in_cxf { &cur.cxf } else { &cur.xf };
                if k >= list.len() {
                    break;
                }
                if matches!(list[k], Xf::Cover { .. } | Xf::SubCover(_)) {
                    k += 1;
                    continue;
                }
                let mut c = cur.clone();
                if in_cxf {
                    c.cxf.remove(k);
                } else {
                    c.xf.remove(k);
                }
                if self.try_one(&c, pred) {
                    cur = c;
                } else {
                    k += 1;
                }
            }
        }
        // remaining shuffles -> transposition lists, ddmin
        for in_cxf in [false, true] {
            let len = if in_cxf { cur.cxf.len() } else { cur.xf.len() };
            for k in 0..len {
                let step = if in_cxf { cur.cxf[k].clone() } else { cur.xf[k].clone() };
                let n = match self.size_before(&cur, in_cxf, k, first) {
                    Some(n) => n,
                    None => continue,
                };
                let perm = match step.explicit(n) {
                    Xf::Perm(p) if p.len() == n + 1 => p,
                    _ => continue,
                };
                let swaps = perm_to_swaps(&perm);
                let mut c = cur.clone();
                set_step(&mut c, in_cxf, k, Xf::Swaps(swaps.clone()));
                if !self.try_one(&c, pred) {
                    // decomposition must be behaviour-preserving; if not, keep the seed form
                    continue;
                }
                cur = c;
                let min = self.ddmin(&cur, in_cxf, k, swaps, pred);
                set_step(&mut cur, in_cxf, k, Xf::Swaps(min));
            }
        }
        cur
    }

    /// Size of the symbol on which step k of xf/cxf acts: renumbering and
    /// dualisation keep the size, only the (single) Cover step changes it.
    fn size_before(&self, spec: &Spec, in_cxf: bool, k: usize, first: &Record) -> Option<usize> {
        if in_cxf {
            return Some(first.in_size);
        }
        if spec.xf[..k].iter().any(|s| matches!(s, Xf::Cover { .. } | Xf::SubCover(_))) {
            Some(first.sym_size)
        } else {
            Sym::parse(&spec.base).ok().map(|s| s.n)
        }
    }

    fn ddmin(&mut self, base: &Spec, in_cxf: bool, k: usize, mut items: Vec<(usize, usize)>, pred: Pred) -> Vec<(usize, usize)> {
        let mut gran = 2usize;
        while items.len() >= 1 && self.evaluations < self.budget {
            let n = items.len();
            let gran_eff = gran.min(n);
            let chunk = (n + gran_eff - 1) / gran_eff;
            // candidates: complements of each chunk
            let mut cands = vec![];
            let mut kept_lists = vec![];
            let mut start = 0;
            while start < n {
                let end = (start + chunk).min(n);
                let kept: Vec<(usize, usize)> = items[..start].iter().chain(items[end..].iter()).cloned().collect();
                let mut c = base.clone();
                set_step(&mut c, in_cxf, k, Xf::Swaps(kept.clone()));
                cands.push(c);
                kept_lists.push(kept);
                start = end;
            }
            match self.first_failing(&cands, pred) {
                Some(i) => {
                    items = kept_lists[i].clone();
                    gran = (gran - 1).max(2);
                }
                None => {
                    if gran_eff >= n {
                        break;
                    }
                    gran = (gran * 2).min(n);
                }
            }
        }
        items
    }

    /// Schedule shrink (seam S): make the run fully steered along its own
    /// decision trace, then push as many decisions as possible to option 0.
    pub fn shrink_schedule(&mut self, spec: &Spec, first: &Record, pred: Pred) -> Option<Spec> {
        if first.decisions.is_empty() {
            return None;
        }
        let mut full = spec.clone();
        full.steer = first.decisions.iter().enumerate().map(|(i, &(_, t, _))| (i, t)).collect();
        full.steer_min_beyond = true;
        if !self.try_one(&full, pred) {
            return None;
        }
        // positions with a non-zero choice
        let mut nz: Vec<usize> = full.steer.iter().filter(|&&(_, t)| t != 0).map(|&(i, _)| i).collect();
        let mut k = 0;
        while k < nz.len() && self.evaluations < self.budget {
            let mut c = full.clone();
            for e in c.steer.iter_mut() {
                if e.0 == nz[k] {
                    e.1 = 0;
                }
            }
            if self.try_one(&c, pred) {
                full = c;
                nz.remove(k);
            } else {
                k += 1;
            }
        }
        // trailing zero choices are implied by min_beyond
        while matches!(full.steer.last(), Some(&(_, 0))) {
            full.steer.pop();
        }
        Some(full)
    }
}

fn set_step(spec: &mut Spec, in_cxf: bool, k: usize, x: Xf) {
    if in_cxf {
        spec.cxf[k] = x;
    } else {
        spec.xf[k] = x;
    }
}

/// Decompose a permutation (1-based) into transpositions such that applying
/// `Swaps` (sequential `p.swap(a, b)` on the identity) rebuilds it.
pub fn perm_to_swaps(target: &[usize]) -> Vec<(usize, usize)> {
    let n = target.len() - 1;
    let mut p: Vec<usize> = (0..=n).collect();
    let mut pos: Vec<usize> = (0..=n).collect(); // pos[value] = index in p
    let mut swaps = vec![];
    for i in 1..=n {
        if p[i] != target[i] {
            let j = pos[target[i]];
            swaps.push((i, j));
            let (vi, vj) = (p[i], p[j]);
            p.swap(i, j);
            pos[vi] = j;
            pos[vj] = i;
        }
    }
    swaps
}

#[cfg(test)]
mod tests {
    use super::*;
    use crate::prng::SplitMix64;

    #[test]
    fn swaps_rebuild_permutation() {
        for seed in 0..50 {
            let target = SplitMix64::new(seed).permutation(17);
            let swaps = perm_to_swaps(&target);
            let mut p: Vec<usize> = (0..=17).collect();
            for (a, b) in swaps {
                p.swap(a, b);
            }
            assert_eq!(p, target);
        }
    }
}
