#![recursion_limit = "1024"]
//! dsym_sim - deterministic simulation harness for odf/rust_dsymbols
//! (properties C16, C17). See /verif/DESIGN.md.

mod agg;
mod check;
mod corpus;
mod dsx;
mod entropy;
mod exec;
mod gen;
mod homology;
mod lowindex;
mod minimise;
mod plan;
mod pool;
mod prng;
mod selftest;
mod spec;

use std::path::PathBuf;
use std::time::Duration;

use plan::Tier;

fn usage() -> ! {
    eprintln!(
        "usage: dsym_sim check <C16|C17> [--tier quick|thorough] [--workers N] [--max-runs N] [--evidence PATH]\n\
         \x20      dsym_sim replay <file>\n\
         \x20      dsym_sim worker [--thorough]\n\
         \x20      dsym_sim gen-corpus <max_size>\n\
         \x20      dsym_sim one <spec.json>\n\
         \x20      dsym_sim dump-logs <C16|C17> <tier> <workers> <count> <outfile>\n\
         \x20      dsym_sim seam-fidelity-child <n>"
    );
    std::process::exit(2)
}

fn main() {
    let args: Vec<String> = std::env::args().collect();
    let seed: u64 = std::env::var("VERIF_SEED").ok().and_then(|s| s.parse().ok()).unwrap_or(1);
    entropy::set_fallback_seed(seed);
    entropy::install_panic_hook();
    if args.len() < 2 {
        usage();
    }
    let flag = |name: &str| -> Option<String> { args.iter().position(|a| a == name).and_then(|i| args.get(i + 1).cloned()) };
    match args[1].as_str() {
        "worker" => {
            pool::worker_main(args.iter().any(|a| a == "--thorough"));
        }
        "gen-corpus" => {
            let n: usize = args.get(2).and_then(|s| s.parse().ok()).unwrap_or(4);
            for line in gen::generate(n) {
                println!("{}", line);
            }
        }
        "check" => {
            if let Err(e) = entropy::selftest() {
                eprintln!("harness error: seam R self-test failed: {}", e);
                std::process::exit(check::EXIT_HARNESS);
            }
            let prop = args.get(2).cloned().unwrap_or_default();
            if prop != "C16" && prop != "C17" {
                usage();
            }
            let tier = match flag("--tier").or_else(|| std::env::var("VERIF_TIER").ok()).as_deref() {
                Some("thorough") => Tier::Thorough,
                _ => Tier::Quick,
            };
            let workers = flag("--workers").and_then(|s| s.parse().ok()).unwrap_or_else(|| std::thread::available_parallelism().map(|n| n.get()).unwrap_or(8));
            let wall_cap = flag("--wall-cap-s").and_then(|s| s.parse().ok()).unwrap_or(if tier == Tier::Thorough { 3000 } else { 420 });
            let code = check::check_cmd(check::CheckArgs {
                prop,
                tier,
                seed,
                workers,
                evidence_path: flag("--evidence").map(PathBuf::from),
                max_runs: flag("--max-runs").and_then(|s| s.parse().ok()),
                wall_cap: Duration::from_secs(wall_cap),
                keep_going: args.iter().any(|a| a == "--keep-going"),
            });
            std::process::exit(code);
        }
        "replay" => {
            if let Err(e) = entropy::selftest() {
                eprintln!("harness error: seam R self-test failed: {}", e);
                std::process::exit(check::EXIT_HARNESS);
            }
            let path = PathBuf::from(args.get(2).cloned().unwrap_or_else(|| usage()));
            std::process::exit(check::replay_cmd(&path));
        }
        "one" => {
            let text = std::fs::read_to_string(args.get(2).cloned().unwrap_or_else(|| usage())).expect("read spec");
            let v: serde_json::Value = serde_json::from_str(&text).expect("json");
            let spec = spec::Spec::from_json(&v).expect("spec");
            let mut ex = exec::Executor::new(false);
            let rec = ex.run(&spec);
            println!("{}", serde_json::to_string_pretty(&rec.to_json()).unwrap());
        }
        "dump-logs" => {
            let code = selftest::dump_logs(&args[2..], seed);
            std::process::exit(code);
        }
        "fidelity" => {
            // outcome sets of simplify on pseudo-toroidal covers of the first
            // <n> corpus literals under <reps> key pairs each; with feature
            // real_entropy the keys are whatever the kernel returns
            let n: usize = args.get(2).and_then(|s| s.parse().ok()).unwrap_or(20);
            let reps: usize = args.get(3).and_then(|s| s.parse().ok()).unwrap_or(50);
            selftest::fidelity(n, reps, seed);
        }
        "scan" => {
            // census of a file of symbol texts: histogram of verdicts and the
            // lines that pass the invariant filter (corpus curation tool)
            let code = selftest::scan(&args[2..]);
            std::process::exit(code);
        }
        "curate-manifold-covers" => {
            // corpus curation: torsion-free covers (closed manifolds with finite
            // fundamental group) of finite-group symbols, via cyclic subgroups
            let code = selftest::curate_manifold_covers(&args[2..]);
            std::process::exit(code);
        }
        "run-specs" => {
            // experiment tool: execute the specs of a JSONL file, write records as JSONL
            let text = std::fs::read_to_string(&args[2]).expect("read specs");
            let specs: Vec<spec::Spec> = text.lines().filter(|l| !l.trim().is_empty()).map(|l| spec::Spec::from_json(&serde_json::from_str(l).expect("json")).expect("spec")).collect();
            let cfg = pool::PoolConfig { workers: 16, chunk: 4, run_budget: Duration::from_secs(60), deadline: None, thorough: args.iter().any(|a| a == "--thorough"), fresh_per_spec: false };
            let recs = pool::run_collect(&specs, &cfg);
            let mut out = String::new();
            for r in recs.iter() {
                match r {
                    Some(r) => out.push_str(&r.to_json().to_string()),
                    None => out.push_str("null"),
                }
                out.push('\n');
            }
            std::fs::write(&args[3], out).expect("write");
        }
        "curate-triangulations" => {
            // corpus curation: closed 3-manifolds from seeded random face pairings
            // of k tetrahedra: lines "k<TAB>seed<TAB>chambers<TAB>H1<TAB>orientable"
            let kmax: usize = args.get(2).and_then(|s| s.parse().ok()).unwrap_or(4);
            let tries: u64 = args.get(3).and_then(|s| s.parse().ok()).unwrap_or(100000);
            let keep: usize = args.get(4).and_then(|s| s.parse().ok()).unwrap_or(300);
            for k in 1..=kmax {
                let mut seen = std::collections::BTreeSet::new();
                let mut kept = 0;
                for sd in 0..tries {
                    let m = match gen::random_triangulation(k, sd) {
                        Some(m) => m,
                        None => continue,
                    };
                    if !m.is_connected() || dsx::manifold_check(&m).is_err() {
                        continue;
                    }
                    let h = match homology::h1(&m) {
                        Ok(h) => h,
                        Err(_) => continue,
                    };
                    let mut deg: Vec<usize> = m.orbits(&[2, 3]).iter().map(|o| o.len()).collect();
                    deg.sort();
                    let mut vl: Vec<usize> = m.orbits(&[1, 2, 3]).iter().map(|o| o.len()).collect();
                    vl.sort();
                    if !seen.insert((h.clone(), deg, vl)) {
                        continue;
                    }
                    println!("{}\t{}\t{}\t{}\t{}", k, sd, m.n, h.iter().map(|x| x.to_string()).collect::<Vec<_>>().join(" "), m.is_oriented());
                    kept += 1;
                    if kept >= keep {
                        break;
                    }
                }
                eprintln!("k = {}: kept {}", k, kept);
            }
        }
        "curate-sg-witnesses" => {
            // corpus curation: for every entry of the space-group invariant table
            // a known-euclidean witness (cover of a cover of the cubic / hexagonal
            // prism tiling), found by computing invariant strings only
            let code = selftest::curate_sg_witnesses(&args[2..]);
            std::process::exit(code);
        }
        "show-input" => {
            // print the symbol a spec's builder-side transformations produce
            let text = std::fs::read_to_string(args.get(2).cloned().unwrap_or_else(|| usage())).expect("read spec");
            let v: serde_json::Value = serde_json::from_str(&text).expect("json");
            let spec = spec::Spec::from_json(&v).expect("spec");
            let mut ex = exec::Executor::new(false);
            match ex.show_input(&spec) {
                Ok(t) => println!("{}", t),
                Err(e) => println!("error: {}", e),
            }
        }
        "seam-selftest" => match entropy::selftest() {
            Ok(()) => println!("seam R ok: interposed getrandom controls RandomState"),
            Err(e) => {
                eprintln!("seam R self-test failed: {}", e);
                std::process::exit(2)
            }
        },
        _ => usage(),
    }
}
