//! Harness-owned Delaney-Dress symbol type and the elementary combinatorics
//! the oracles need. Deliberately independent of the repository: only `Vec`s
//! (no hash containers - see the hook fidelity rule in DESIGN.md), own text
//! parser/printer, own orbit walks.

use rust_dsymbols::derived::{build_set, build_sym_using_vs};
use rust_dsymbols::dsets::{DSet, PartialDSet};
use rust_dsymbols::dsyms::{DSym, PartialDSym, SimpleDSym};

use crate::prng::SplitMix64;

/// Chambers are 1..=n; index 0 of every inner vector is unused (0).
/// `v[i][d]` is the branching number of the (i,i+1)-orbit through d.
#[derive(Clone, PartialEq, Eq, Debug)]
pub struct Sym {
    pub n: usize,
    pub dim: usize,
    pub op: Vec<Vec<usize>>,
    pub v: Vec<Vec<usize>>,
}

impl Sym {
    pub fn from_dsym<T: DSym>(ds: &T) -> Result<Sym, String> {
        let n = ds.size();
        let dim = ds.dim();
        let mut op = vec![vec![0; n + 1]; dim + 1];
        let mut v = vec![vec![0; n + 1]; dim];
        for i in 0..=dim {
            for d in 1..=n {
                op[i][d] = ds.op(i, d).ok_or_else(|| format!("op({},{}) undefined", i, d))?;
                if op[i][d] < 1 || op[i][d] > n {
                    return Err(format!("op({},{}) = {} out of range", i, d, op[i][d]));
                }
            }
        }
        for i in 0..dim {
            for d in 1..=n {
                v[i][d] = ds.v(i, i + 1, d).ok_or_else(|| format!("v({},{},{}) undefined", i, i + 1, d))?;
            }
        }
        Ok(Sym { n, dim, op, v })
    }

    /// A D-set seen as a symbol with all branching numbers 1.
    pub fn from_dset<T: DSet>(ds: &T) -> Result<Sym, String> {
        let n = ds.size();
        let dim = ds.dim();
        let mut op = vec![vec![0; n + 1]; dim + 1];
        for i in 0..=dim {
            for d in 1..=n {
                op[i][d] = ds.op(i, d).ok_or_else(|| format!("op({},{}) undefined", i, d))?;
                if op[i][d] < 1 || op[i][d] > n {
                    return Err(format!("op({},{}) = {} out of range", i, d, op[i][d]));
                }
            }
        }
        let mut v = vec![vec![1; n + 1]; dim];
        for row in v.iter_mut() {
            row[0] = 0;
        }
        Ok(Sym { n, dim, op, v })
    }

    pub fn to_partial_dset(&self) -> PartialDSet {
        build_set(self.n, self.dim, |i, d| Some(self.op[i][d]))
    }

    pub fn to_partial(&self) -> PartialDSym {
        build_sym_using_vs(self.to_partial_dset(), |i, d| Some(self.v[i][d]))
    }

    pub fn to_simple(&self) -> SimpleDSym {
        SimpleDSym::from(self.to_partial())
    }

    /// Own parser for `<a.b:size [dim]:ops,...:ms,...>` (dim defaults to 2).
    pub fn parse(text: &str) -> Result<Sym, String> {
        let t = text.trim();
        let t = t.strip_prefix('<').ok_or("missing <")?;
        let t = t.strip_suffix('>').ok_or("missing >")?;
        let parts: Vec<&str> = t.split(':').collect();
        if parts.len() != 4 {
            return Err(format!("expected 4 ':'-separated parts, got {}", parts.len()));
        }
        let nums = |s: &str| -> Result<Vec<usize>, String> {
            s.split_whitespace()
                .map(|x| x.parse::<usize>().map_err(|e| format!("{}: {:?}", e, x)))
                .collect()
        };
        let head = nums(parts[1])?;
        let (n, dim) = match head.len() {
            1 => (head[0], 2),
            2 => (head[0], head[1]),
            _ => return Err("bad size/dim".into()),
        };
        if n < 1 || dim < 1 {
            return Err("size and dim must be positive".into());
        }
        let ops: Vec<&str> = parts[2].split(',').collect();
        let ms: Vec<&str> = parts[3].split(',').collect();
        if ops.len() != dim + 1 || ms.len() != dim {
            return Err("wrong number of op / degree lists".into());
        }
        let mut op = vec![vec![0usize; n + 1]; dim + 1];
        for i in 0..=dim {
            let list = nums(ops[i])?;
            let mut k = 0;
            for d in 1..=n {
                if op[i][d] == 0 {
                    let e = *list.get(k).ok_or("incomplete op spec")?;
                    if e < 1 || e > n {
                        return Err("op image out of range".into());
                    }
                    if op[i][e] != 0 && !(e == d) {
                        return Err("op image already used".into());
                    }
                    op[i][d] = e;
                    op[i][e] = d;
                    k += 1;
                }
            }
            if k != list.len() {
                return Err("unused data in op spec".into());
            }
        }
        let mut s = Sym { n, dim, op, v: vec![vec![0usize; n + 1]; dim] };
        for i in 0..dim {
            let list = nums(ms[i])?;
            let mut k = 0;
            for d in 1..=n {
                if s.v[i][d] == 0 {
                    let m = *list.get(k).ok_or("incomplete degree spec")?;
                    let orb = s.orbit2(i, i + 1, d);
                    let r = s.r_of_orbit(i, i + 1, &orb);
                    if m == 0 || m % r != 0 {
                        return Err(format!("illegal degree {} for orbit length {}", m, r));
                    }
                    for &e in &orb {
                        s.v[i][e] = m / r;
                    }
                    k += 1;
                }
            }
            if k != list.len() {
                return Err("unused data in degree spec".into());
            }
        }
        Ok(s)
    }

    pub fn to_text(&self) -> String {
        let mut out = format!("<1.1:{} {}:", self.n, self.dim);
        for i in 0..=self.dim {
            if i > 0 {
                out.push(',');
            }
            let mut first = true;
            for d in 1..=self.n {
                let e = self.op[i][d];
                if e >= d {
                    if !first {
                        out.push(' ');
                    }
                    first = false;
                    out.push_str(&e.to_string());
                }
            }
        }
        out.push(':');
        for i in 0..self.dim {
            if i > 0 {
                out.push(',');
            }
            let mut seen = vec![false; self.n + 1];
            let mut first = true;
            for d in 1..=self.n {
                if !seen[d] {
                    let orb = self.orbit2(i, i + 1, d);
                    let r = self.r_of_orbit(i, i + 1, &orb);
                    for &e in &orb {
                        seen[e] = true;
                    }
                    if !first {
                        out.push(' ');
                    }
                    first = false;
                    out.push_str(&(r * self.v[i][d]).to_string());
                }
            }
        }
        out.push('>');
        out
    }

    /// Orbit of d under <op i, op j>, in discovery order.
    pub fn orbit2(&self, i: usize, j: usize, d: usize) -> Vec<usize> {
        self.orbit(&[i, j], d)
    }

    pub fn orbit(&self, idcs: &[usize], d: usize) -> Vec<usize> {
        let mut seen = vec![false; self.n + 1];
        let mut out = vec![d];
        seen[d] = true;
        let mut k = 0;
        while k < out.len() {
            let e = out[k];
            k += 1;
            for &i in idcs {
                let f = self.op[i][e];
                if !seen[f] {
                    seen[f] = true;
                    out.push(f);
                }
            }
        }
        out
    }

    /// All orbits under the given indices, each in discovery order, ordered
    /// by smallest seed.
    pub fn orbits(&self, idcs: &[usize]) -> Vec<Vec<usize>> {
        let mut seen = vec![false; self.n + 1];
        let mut out = vec![];
        for d in 1..=self.n {
            if !seen[d] {
                let orb = self.orbit(idcs, d);
                for &e in &orb {
                    seen[e] = true;
                }
                out.push(orb);
            }
        }
        out
    }

    /// r(i,j) of an (i,j)-orbit given as element list: smallest k with
    /// (op_j op_i)^k = id on it = |orbit| / (1 or 2).
    fn r_of_orbit(&self, i: usize, j: usize, orb: &[usize]) -> usize {
        let d = orb[0];
        let mut e = d;
        let mut k = 0;
        loop {
            e = self.op[j][self.op[i][e]];
            k += 1;
            if e == d {
                return k;
            }
            if k > 2 * orb.len() + 2 {
                return k; // not an involution pair; validity check reports it
            }
        }
    }

    pub fn r(&self, i: usize, j: usize, d: usize) -> usize {
        let orb = self.orbit2(i, j, d);
        self.r_of_orbit(i, j, &orb)
    }

    pub fn m(&self, i: usize, d: usize) -> usize {
        self.r(i, i + 1, d) * self.v[i][d]
    }

    pub fn is_connected(&self) -> bool {
        let all: Vec<usize> = (0..=self.dim).collect();
        self.orbit(&all, 1).len() == self.n
    }

    /// Structural validity: involutions, far commutation, v constant on its
    /// orbits and positive. Returns the first violated clause.
    pub fn validate(&self) -> Result<(), String> {
        if self.n < 1 {
            return Err("empty".into());
        }
        for i in 0..=self.dim {
            for d in 1..=self.n {
                let e = self.op[i][d];
                if e < 1 || e > self.n {
                    return Err(format!("op{}({}) out of range", i, d));
                }
                if self.op[i][e] != d {
                    return Err(format!("op{} not an involution at {}", i, d));
                }
            }
        }
        for i in 0..=self.dim {
            for j in (i + 2)..=self.dim {
                for d in 1..=self.n {
                    if self.op[i][self.op[j][d]] != self.op[j][self.op[i][d]] {
                        return Err(format!("op{} and op{} do not commute at {}", i, j, d));
                    }
                }
            }
        }
        for i in 0..self.dim {
            for orb in self.orbits(&[i, i + 1]) {
                let v0 = self.v[i][orb[0]];
                if v0 < 1 {
                    return Err(format!("v{}({}) undefined", i, orb[0]));
                }
                if orb.iter().any(|&e| self.v[i][e] != v0) {
                    return Err(format!("v{} not constant on the orbit of {}", i, orb[0]));
                }
            }
        }
        Ok(())
    }

    pub fn all_v_one(&self) -> bool {
        (0..self.dim).all(|i| (1..=self.n).all(|d| self.v[i][d] == 1))
    }

    pub fn max_v(&self) -> usize {
        (0..self.dim).flat_map(|i| (1..=self.n).map(move |d| (i, d))).map(|(i, d)| self.v[i][d]).max().unwrap_or(0)
    }

    pub fn crystallographic(&self) -> bool {
        (0..self.dim).all(|i| (1..=self.n).all(|d| matches!(self.v[i][d], 1 | 2 | 3 | 4 | 6)))
    }

    pub fn is_loopless(&self) -> bool {
        (0..=self.dim).all(|i| (1..=self.n).all(|d| self.op[i][d] != d))
    }

    /// 2-colouring of the chamber graph; None if some component is not
    /// bipartite (or has a loop).
    pub fn orientation(&self) -> Option<Vec<i8>> {
        let mut col = vec![0i8; self.n + 1];
        for s in 1..=self.n {
            if col[s] != 0 {
                continue;
            }
            col[s] = 1;
            let mut stack = vec![s];
            while let Some(d) = stack.pop() {
                for i in 0..=self.dim {
                    let e = self.op[i][d];
                    if col[e] == 0 {
                        col[e] = -col[d];
                        stack.push(e);
                    } else if col[e] == col[d] {
                        return None;
                    }
                }
            }
        }
        Some(col)
    }

    pub fn is_oriented(&self) -> bool {
        self.orientation().is_some()
    }

    /// new chamber p[d] plays the role of old chamber d (p is 1-based).
    pub fn renumbered(&self, p: &[usize]) -> Sym {
        let mut op = vec![vec![0; self.n + 1]; self.dim + 1];
        let mut v = vec![vec![0; self.n + 1]; self.dim];
        for i in 0..=self.dim {
            for d in 1..=self.n {
                op[i][p[d]] = p[self.op[i][d]];
            }
        }
        for i in 0..self.dim {
            for d in 1..=self.n {
                v[i][p[d]] = self.v[i][d];
            }
        }
        Sym { n: self.n, dim: self.dim, op, v }
    }

    pub fn shuffled(&self, seed: u64) -> Sym {
        let p = SplitMix64::new(seed).permutation(self.n);
        self.renumbered(&p)
    }

    pub fn dual(&self) -> Sym {
        let k = self.dim;
        let op = (0..=k).map(|i| self.op[k - i].clone()).collect();
        let v = (0..k).map(|i| self.v[k - 1 - i].clone()).collect();
        Sym { n: self.n, dim: k, op, v }
    }

    /// The component of `seed` under the given (consecutive) indices, as a
    /// symbol of dimension idcs.len()-1, renumbered in ascending order.
    pub fn subsymbol(&self, idcs: &[usize], seed: usize) -> Sym {
        let mut elems = self.orbit(idcs, seed);
        elems.sort();
        let mut s2i = vec![0; self.n + 1];
        for (k, &d) in elems.iter().enumerate() {
            s2i[d] = k + 1;
        }
        let n = elems.len();
        let dim = idcs.len() - 1;
        let mut op = vec![vec![0; n + 1]; dim + 1];
        let mut v = vec![vec![0; n + 1]; dim];
        for (a, &i) in idcs.iter().enumerate() {
            for (k, &d) in elems.iter().enumerate() {
                op[a][k + 1] = s2i[self.op[i][d]];
            }
        }
        for a in 0..dim {
            assert!(idcs[a + 1] == idcs[a] + 1, "subsymbol needs consecutive indices");
            for (k, &d) in elems.iter().enumerate() {
                v[a][k + 1] = self.v[idcs[a]][d];
            }
        }
        Sym { n, dim, op, v }
    }

    /// Orientation double cover (own construction): chambers (d, s), every op
    /// flips the sheet. Returns the component of (1, 0).
    pub fn orientation_cover_component(&self) -> Sym {
        let n = self.n;
        let id = |d: usize, s: usize| d + s * n;
        let mut big = Sym {
            n: 2 * n,
            dim: self.dim,
            op: vec![vec![0; 2 * n + 1]; self.dim + 1],
            v: vec![vec![0; 2 * n + 1]; self.dim],
        };
        for i in 0..=self.dim {
            for d in 1..=n {
                for s in 0..2 {
                    big.op[i][id(d, s)] = id(self.op[i][d], 1 - s);
                }
            }
        }
        // branching: m is preserved, v = m / r in the cover
        for i in 0..self.dim {
            for d in 1..=n {
                for s in 0..2 {
                    big.v[i][id(d, s)] = 1; // placeholder, fixed below
                }
            }
        }
        for i in 0..self.dim {
            for orb in big.orbits(&[i, i + 1]) {
                let d0 = (orb[0] - 1) % n + 1;
                let m = self.m(i, d0);
                let r = big.r_of_orbit(i, i + 1, &orb);
                let vv = m / r;
                for &e in &orb {
                    big.v[i][e] = vv;
                }
            }
        }
        let idcs: Vec<usize> = (0..=self.dim).collect();
        big.subsymbol(&idcs, 1)
    }
}

/// Twice the orbifold Euler characteristic ("curvature") of a connected 2D
/// symbol as an exact fraction (num, den), den > 0:
/// K = sum_d (1/m01 + 1/m12 + 1/m02 - 1).
pub fn curvature_2d(s: &Sym) -> (i64, i64) {
    assert!(s.dim == 2);
    // common denominator: lcm of all m
    let mut terms: Vec<(i64, i64)> = vec![];
    for d in 1..=s.n {
        let m01 = s.m(0, d) as i64;
        let m12 = s.m(1, d) as i64;
        let m02 = 2i64; // r02 * v02 = 2 always (r=1,v=2 or r=2,v=1)
        terms.push((1, m01));
        terms.push((1, m12));
        terms.push((1, m02));
    }
    let mut num: i64 = 0;
    let mut den: i64 = 1;
    for (a, b) in terms {
        // num/den + a/b
        let g = gcd(den, b);
        let l = den / g * b;
        num = num * (l / den) + a * (l / b);
        den = l;
    }
    num -= (s.n as i64) * den;
    let g = gcd(num.abs().max(1), den);
    (num / g, den / g)
}

fn gcd(a: i64, b: i64) -> i64 {
    if b == 0 {
        a.abs()
    } else {
        gcd(b, a % b)
    }
}

/// Own test "this connected 2D symbol is a good spherical orbifold":
/// positive curvature, and the cone census of the orientation cover is not
/// a tear-drop (one cone) or a spindle with two different orders.
pub fn spherical_2d(s: &Sym) -> bool {
    let (num, _) = curvature_2d(s);
    if num <= 0 {
        return false;
    }
    let oc = s.orientation_cover_component();
    let mut cones = vec![];
    for (i, j) in [(0usize, 1usize), (1, 2)] {
        for orb in oc.orbits(&[i, j]) {
            let v = oc.v[i][orb[0]];
            if v > 1 {
                cones.push(v);
            }
        }
    }
    // far pair (0,2): m = 2 always, so v = 2 / r
    for orb in oc.orbits(&[0, 2]) {
        let r = oc.r_of_orbit(0, 2, &orb);
        if r == 1 {
            cones.push(2);
        }
    }
    match cones.len() {
        1 => false,
        2 => cones[0] == cones[1],
        _ => true,
    }
}

/// Strict test for D-sets (all v = 1): the connected 2D symbol is a closed
/// 2-sphere: no loops, bipartite, V - E + F = 2.
pub fn is_sphere_strict(s: &Sym) -> Result<(), String> {
    assert!(s.dim == 2);
    if !s.all_v_one() {
        return Err("branching > 1".into());
    }
    if !s.is_loopless() {
        return Err("has a fixed chamber (boundary)".into());
    }
    if !s.is_oriented() {
        return Err("not orientable".into());
    }
    let v = s.orbits(&[1, 2]).len() as i64;
    let e = s.orbits(&[0, 2]).len() as i64;
    let f = s.orbits(&[0, 1]).len() as i64;
    if v - e + f != 2 {
        return Err(format!("Euler characteristic {}", v - e + f));
    }
    Ok(())
}

/// Precondition of C16/C17 for a 3D symbol: every (0,1,2)- and
/// (1,2,3)-component is a good spherical orbifold (own test).
pub fn tiles_and_vertex_figures_spherical(s: &Sym) -> bool {
    assert!(s.dim == 3);
    for idcs in [[0usize, 1, 2], [1, 2, 3]] {
        for orb in s.orbits(&idcs) {
            if !spherical_2d(&s.subsymbol(&idcs, orb[0])) {
                return false;
            }
        }
    }
    true
}

/// The component of `seed` under three arbitrary ops of a D-set, as a 2D
/// D-set with all branching numbers 1 (the link of a vertex, tile centre,
/// face centre or edge midpoint of a 3D D-set).
pub fn link_2d(s: &Sym, idcs: [usize; 3], seed: usize) -> Sym {
    let mut elems = s.orbit(&idcs, seed);
    elems.sort();
    let mut s2i = vec![0; s.n + 1];
    for (k, &d) in elems.iter().enumerate() {
        s2i[d] = k + 1;
    }
    let n = elems.len();
    let mut op = vec![vec![0; n + 1]; 3];
    for (a, &i) in idcs.iter().enumerate() {
        for (k, &d) in elems.iter().enumerate() {
            op[a][k + 1] = s2i[s.op[i][d]];
        }
    }
    let mut v = vec![vec![1; n + 1]; 2];
    v[0][0] = 0;
    v[1][0] = 0;
    Sym { n, dim: 2, op, v }
}

/// What the property states about a result: valid D-set, branch-free, every
/// tile ((0,1,2)-component) and vertex figure ((1,2,3)-component) a sphere.
pub fn tiles_and_vertex_figures_check(s: &Sym) -> Result<(), String> {
    if s.dim != 3 {
        return Err(format!("dimension {}", s.dim));
    }
    s.validate()?;
    if !s.all_v_one() {
        return Err("not branch-free".into());
    }
    for idcs in [[0usize, 1, 2], [1, 2, 3]] {
        for orb in s.orbits(&idcs) {
            is_sphere_strict(&link_2d(s, idcs, orb[0])).map_err(|e| {
                format!("({},{},{})-component of chamber {}: {}", idcs[0], idcs[1], idcs[2], orb[0], e)
            })?;
        }
    }
    Ok(())
}

/// A 3D D-set is a closed manifold cell complex: valid, all v = 1, and the
/// link of every vertex, tile centre, FACE CENTRE and EDGE MIDPOINT is a
/// 2-sphere. For oriented D-sets the last two follow from the first two;
/// for non-oriented ones they do not (a face glued to itself by a half turn
/// has a projective plane as link: a quotient of S^3 by a group with
/// isolated fixed points is branch-free with spherical tiles and vertex
/// figures and still not a manifold).
pub fn manifold_check(s: &Sym) -> Result<(), String> {
    tiles_and_vertex_figures_check(s)?;
    for idcs in [[0usize, 1, 3], [0, 2, 3]] {
        for orb in s.orbits(&idcs) {
            is_sphere_strict(&link_2d(s, idcs, orb[0])).map_err(|e| {
                format!("({},{},{})-component of chamber {}: {}", idcs[0], idcs[1], idcs[2], orb[0], e)
            })?;
        }
    }
    Ok(())
}

/// Find the chamber map f: a -> b with f(a0) = b0 that commutes with all ops
/// (own BFS), and check it preserves all degrees m. None if there is none.
pub fn morphism(a: &Sym, b: &Sym, a0: usize, b0: usize) -> Option<Vec<usize>> {
    if a.dim != b.dim {
        return None;
    }
    let mut f = vec![0usize; a.n + 1];
    f[a0] = b0;
    let mut queue = vec![a0];
    let mut k = 0;
    while k < queue.len() {
        let d = queue[k];
        k += 1;
        for i in 0..=a.dim {
            let e = a.op[i][d];
            let fe = b.op[i][f[d]];
            if f[e] == 0 {
                f[e] = fe;
                queue.push(e);
            } else if f[e] != fe {
                return None;
            }
        }
    }
    if queue.len() != a.n {
        return None; // a not connected
    }
    for i in 0..a.dim {
        for d in 1..=a.n {
            if a.m(i, d) != b.m(i, f[d]) {
                return None;
            }
        }
    }
    Some(f)
}

/// Is `c` (connected) a covering of `b` (connected)? Returns the sheet number.
pub fn covering_degree(c: &Sym, b: &Sym) -> Option<usize> {
    if c.n % b.n != 0 {
        return None;
    }
    for b0 in 1..=b.n {
        if let Some(f) = morphism(c, b, 1, b0) {
            let mut cnt = vec![0usize; b.n + 1];
            for d in 1..=c.n {
                cnt[f[d]] += 1;
            }
            let k = c.n / b.n;
            if (1..=b.n).all(|e| cnt[e] == k) {
                return Some(k);
            }
        }
    }
    None
}

pub fn isomorphic(a: &Sym, b: &Sym) -> bool {
    if a.n != b.n || a.dim != b.dim {
        return false;
    }
    (1..=b.n).any(|b0| match morphism(a, b, 1, b0) {
        Some(f) => {
            let mut seen = vec![false; b.n + 1];
            f[1..].iter().all(|&x| !std::mem::replace(&mut seen[x], true))
        }
        None => false,
    })
}

/// Own minimal image: coarsest degree-respecting congruence, by partition
/// refinement-free brute force: chambers d, e are equivalent iff the
/// morphism-like BFS pairing started at (d, e) never meets a degree clash.
/// O(n^2 * n) - only used on small symbols (n <= ~64).
pub fn minimal_image_size(s: &Sym) -> usize {
    // union-find over chambers; unite d with 1..d when compatible
    let n = s.n;
    let mut cls = vec![0usize; n + 1];
    let mut count = 0;
    let mut reps: Vec<usize> = vec![];
    for d in 1..=n {
        let mut found = 0;
        for &r in &reps {
            if equivalent(s, r, d) {
                found = r;
                break;
            }
        }
        if found == 0 {
            reps.push(d);
            count += 1;
            cls[d] = d;
        } else {
            cls[d] = found;
        }
    }
    count
}

fn equivalent(s: &Sym, a: usize, b: usize) -> bool {
    // pair-BFS: (a,b) equivalent iff all reachable pairs have equal degrees
    let n = s.n;
    let mut seen = vec![false; (n + 1) * (n + 1)];
    let mut stack = vec![(a, b)];
    seen[a * (n + 1) + b] = true;
    while let Some((x, y)) = stack.pop() {
        for i in 0..s.dim {
            if s.m(i, x) != s.m(i, y) {
                return false;
            }
        }
        for i in 0..=s.dim {
            let (x2, y2) = (s.op[i][x], s.op[i][y]);
            if !seen[x2 * (n + 1) + y2] {
                seen[x2 * (n + 1) + y2] = true;
                stack.push((x2, y2));
            }
        }
    }
    true
}
