//! Self-tests of the simulator itself (determinism, hook transparency).
//! `dump-logs` writes the event logs of the first N exploration runs of a
//! plan, sorted by run index, so that invocations with different worker
//! counts, repetitions and builds (cfg on/off) can be compared byte by byte.

use std::io::Write;
use std::time::Duration;

use crate::corpus::{Corpus, Entry};
use crate::exec::{hooks_compiled, Record};
use crate::plan::{kplus, Census, CoverCounts, Planner, Tier};
use crate::pool::{run_collect, PoolConfig};

/// args: <prop> <tier> <workers> <count> <outfile> [--outcomes-only] [--no-steer]
pub fn dump_logs(args: &[String], seed: u64) -> i32 {
    if args.len() < 5 {
        eprintln!("dump-logs <C16|C17> <quick|thorough> <workers> <count> <outfile> [--outcomes-only] [--no-steer]");
        return 2;
    }
    let prop = args[0].clone();
    let tier = if args[1] == "thorough" { Tier::Thorough } else { Tier::Quick };
    let workers: usize = args[2].parse().unwrap_or(4);
    let count: usize = args[3].parse().unwrap_or(1000);
    let outfile = args[4].clone();
    let outcomes_only = args.iter().any(|a| a == "--outcomes-only");
    // --no-steer plans as a build without hooks would, so that cfg-on and
    // cfg-off builds execute the same specs (hook transparency test)
    let hooks = hooks_compiled() && !args.iter().any(|a| a == "--no-steer");
    let corpus = match Corpus::load(4, tier == Tier::Thorough) {
        Ok(c) => c,
        Err(e) => {
            eprintln!("corpus: {}", e);
            return 2;
        }
    };
    let cfg = PoolConfig { workers, chunk: 8, run_budget: Duration::from_secs(120), deadline: None, thorough: tier == Tier::Thorough, fresh_per_spec: false };
    let mut planner = Planner::new(seed, &prop, tier, hooks);
    planner.pre_pool = corpus.k0.iter().map(|e| e.text.clone()).collect();
    let mut census_entries: Vec<&Entry> = corpus.g.iter().collect();
    census_entries.extend(corpus.k0.iter());
    census_entries.extend(corpus.finite.iter());
    let census_specs = planner.census(&census_entries);
    let census_recs = run_collect(&census_specs, &cfg);
    let census: Vec<Census> = census_recs
        .iter()
        .map(|r| match r {
            Some(r) if r.status == "ran" => Census::from_record(r),
            _ => Census::default(),
        })
        .collect();
    let census_g: Vec<Census> = census[..corpus.g.len()].to_vec();
    let (kp, _) = kplus(&corpus);
    let kmax = if tier == Tier::Thorough { 3 } else { 2 };
        let mut cover_bases: Vec<(&Entry, bool, usize)> = corpus.k0.iter().map(|e| (e, true, kmax)).collect();
    for (gi, e) in corpus.g.iter().enumerate() {
        if gi >= corpus.extra_from && tier != Tier::Thorough && !kp[gi] && e.id != "J0" && e.id != "J1" && crate::prng::hmix(&[seed, 0xC0FE, gi as u64]) % 8 != 0 {
            continue;
        }
        if e.id.starts_with('J') && e.id != "J0" && e.id != "J1" {
            continue;
        }
        if kp[gi] || census_g[gi].interesting() {
            cover_bases.push((e, kp[gi], if gi >= corpus.extra_from { 2 } else { kmax }));
        } else if gi < corpus.extra_from && (tier == Tier::Thorough || crate::prng::hmix(&[seed, 0xC0F2, gi as u64]) % 16 == 0) {
            cover_bases.push((e, false, 2));
        }
    }
    let cover_counts = CoverCounts::compute(&cover_bases);
        let sweep = crate::plan::sweep_counts(&corpus, tier);
    let specs = if prop == "C17" {
        planner.c17_stage_b(&corpus, &census_g, &kp, &cover_counts, &sweep)
    } else {
        planner.c16_stage_b(&corpus, &census_g, &kp, &cover_counts, &sweep)
    };
    // an evenly spread sample of the plan, so every block kind is represented
    let stride = (specs.len() / count.max(1)).max(1);
    let rec_states = args.iter().any(|a| a == "--rec-states");
    let mut sample: Vec<_> = specs.iter().step_by(stride).take(count).cloned().collect();
    for s in sample.iter_mut() {
        s.rec_states = rec_states;
    }
    let recs = run_collect(&sample, &cfg);
    let mut lines: Vec<(u64, String)> = vec![];
    let dump = |r: &Record| -> String {
        if outcomes_only {
            format!("{} {} {} {} {:016x} {:?}", r.idx, r.status, r.outcome, r.detail, r.out_fp, r.failures)
        } else {
            r.log_json().to_string()
        }
    };
    for r in census_recs.iter().flatten() {
        lines.push((r.idx, dump(r)));
    }
    for r in recs.iter().flatten() {
        lines.push((r.idx, dump(r)));
    }
    lines.sort();
    let mut f = std::fs::File::create(&outfile).expect("create outfile");
    for (_, l) in &lines {
        writeln!(f, "{}", l).unwrap();
    }
    println!("dumped {} logs ({} census + {} exploration) to {}", lines.len(), census_recs.len(), recs.len(), outfile);
    0
}

/// Informational: per input, the set of distinct outputs of `simplify` over
/// `reps` fresh threads. Printed as "input_index fp fp fp ...".
pub fn fidelity(n: usize, reps: usize, seed: u64) {
    use crate::dsx::Sym;
    use crate::entropy::on_fresh_thread;
    use crate::prng::{fnv64, hmix, SplitMix64};
    use rust_dsymbols::delaney3d::pseudo_toroidal_cover;
    use rust_dsymbols::simplify::simplify;
    let corpus = Corpus::load(4, false).expect("corpus");
    println!("real_entropy={}", cfg!(feature = "real_entropy"));
    for (i, e) in corpus.k0.iter().take(n).enumerate() {
        let s = Sym::parse(&e.text).unwrap();
        let cov = match pseudo_toroidal_cover(&s.to_partial()) {
            Some(c) => c,
            None => continue,
        };
        let mut outs = std::collections::BTreeSet::new();
        for r in 0..reps {
            let mut rng = SplitMix64::new(hmix(&[seed, 0xF1DE, i as u64, r as u64]));
            let c = cov.clone();
            let out = on_fresh_thread(rng.next_u64(), rng.next_u64(), move || simplify(&c).map(|y| y.to_string()));
            let fp = match out.result {
                Ok(Some(t)) => fnv64(t.as_bytes()),
                Ok(None) => 0,
                Err(_) => 1,
            };
            outs.insert(fp);
        }
        println!("{} {}", i, outs.iter().map(|f| format!("{:016x}", f)).collect::<Vec<_>>().join(" "));
    }
}

/// args: <file> <out_interesting> [min_size] [op] [max_size] [budget_s]
pub fn scan(args: &[String]) -> i32 {
    use crate::spec::{Expect, Op, Repr, Spec};
    use std::collections::BTreeMap;
    let text = std::fs::read_to_string(&args[0]).expect("read");
    let min_size: usize = args.get(2).and_then(|s| s.parse().ok()).unwrap_or(0);
    let op = args.get(3).map(|s| Op::parse(s).expect("op")).unwrap_or(Op::IsEuclidean);
    let max_size: usize = args.get(4).and_then(|s| s.parse().ok()).unwrap_or(usize::MAX);
    let budget: u64 = args.get(5).and_then(|s| s.parse().ok()).unwrap_or(300);
    let lines: Vec<&str> = text
        .lines()
        .filter(|l| !l.starts_with('#') && !l.trim().is_empty())
        .filter(|l| crate::dsx::Sym::parse(l.split('\t').next().unwrap()).map(|s| s.n >= min_size && s.n <= max_size).unwrap_or(false))
        .collect();
    let specs: Vec<Spec> = lines
        .iter()
        .enumerate()
        .map(|(i, l)| Spec {
            idx: i as u64,
            prop: "C17".into(),
            group: format!("S{}", i),
            parent: None,
            known_euclidean: false,
            base: l.split('\t').next().unwrap().to_string(),
            xf: vec![],
            repr: Repr::PartialDSym,
            op,
            cxf: vec![],
            expect: Expect::Unknown,
            hist: 0,
            pre: vec![],
            k0: 0,
            k1: 0,
            steer: vec![],
            steer_min_beyond: false,
            rec_states: false,
            deep: false,
            want_inv: false,
            classify: false,
        })
        .collect();
    let cfg = PoolConfig { workers: 16, chunk: if op == Op::IsEuclidean { 64 } else { 1 }, run_budget: Duration::from_secs(budget), deadline: None, thorough: false, fresh_per_spec: false };
    let recs = run_collect(&specs, &cfg);
    let mut hist: BTreeMap<String, u64> = BTreeMap::new();
    let mut probes: BTreeMap<String, u64> = BTreeMap::new();
    let mut out = String::new();
    for (i, r) in recs.iter().enumerate() {
        if let Some(r) = r {
            let key = if r.status != "ran" { format!("excluded: {}", r.excluded_reason) } else { format!("{}: {}", r.outcome, r.detail) };
            *hist.entry(key.clone()).or_insert(0) += 1;
            for (k, v) in &r.probes {
                *probes.entry(k.clone()).or_insert(0) += v;
            }
            if r.status == "ran" && !(r.outcome == "no" && r.detail == crate::plan::REASON_INVARIANTS) {
                out.push_str(&format!("{}\t{}: {} in={} out={}\n", specs[i].base, r.outcome, r.detail, r.in_size, r.out_size));
            }
        }
    }
    std::fs::write(&args[1], out).expect("write");
    for (k, v) in hist {
        println!("{:8} {}", v, k);
    }
    for (k, v) in probes {
        println!("probe {:8} {}", v, k);
    }
    0
}

/// args: <file of finite symbols (scan output)> <outfile> [max_fuc_size]
/// For each symbol: try short words w in the generators of its fundamental
/// group; keep covers for the subgroup <w> that are branch-free manifolds
/// with non-trivial H1 (lens-space like), at most 3 per symbol.
pub fn curate_manifold_covers(args: &[String]) -> i32 {
    use crate::dsx::{self, Sym};
    use crate::homology;
    use rust_dsymbols::covers::subgroup_cover;
    use rust_dsymbols::fpgroups::free_words::FreeWord;
    use rust_dsymbols::fundamental_group::fundamental_group;
    let text = std::fs::read_to_string(&args[0]).expect("read");
    let max_fuc: usize = args.get(2).and_then(|s| s.parse().ok()).unwrap_or(600);
    let mut items: Vec<(String, usize)> = vec![];
    for l in text.lines() {
        let mut parts = l.split('\t');
        let sym = parts.next().unwrap_or("").to_string();
        let info = parts.next().unwrap_or("");
        let fuc: usize = info.split("in=").nth(1).and_then(|x| x.split(' ').next()).and_then(|x| x.parse().ok()).unwrap_or(0);
        if fuc > 0 && fuc <= max_fuc {
            items.push((sym, fuc));
        }
    }
    let n_threads = 16;
    let chunks: Vec<Vec<(String, usize)>> = (0..n_threads).map(|t| items.iter().skip(t).step_by(n_threads).cloned().collect()).collect();
    let results: Vec<Vec<String>> = std::thread::scope(|sc| {
        let hs: Vec<_> = chunks
            .iter()
            .map(|chunk| {
                sc.spawn(move || {
                    let mut out = vec![];
                    for (text, fuc) in chunk {
                        let s = match Sym::parse(text) {
                            Ok(s) => s,
                            Err(_) => continue,
                        };
                        let ds = s.to_partial();
                        let fg = fundamental_group(&ds);
                        let ng = fg.nr_generators() as isize;
                        let mut gens: Vec<isize> = vec![];
                        for g in 1..=ng {
                            gens.push(g);
                            gens.push(-g);
                        }
                        let mut words: Vec<Vec<isize>> = vec![];
                        for &a in &gens {
                            for &b in &gens {
                                if a != -b {
                                    words.push(vec![a, b]);
                                }
                                for &c in &gens {
                                    if a != -b && b != -c {
                                        words.push(vec![a, b, c]);
                                    }
                                }
                            }
                        }
                        words.truncate(400);
                        let mut kept: Vec<(usize, Vec<u64>)> = vec![];
                        for w in words {
                            if kept.len() >= 3 {
                                break;
                            }
                            let r = std::panic::catch_unwind(std::panic::AssertUnwindSafe(|| subgroup_cover(&ds, &vec![FreeWord::from(w.clone())])));
                            let c = match r {
                                Ok(c) => c,
                                Err(_) => continue,
                            };
                            let cs = match Sym::from_dsym(&c) {
                                Ok(cs) => cs,
                                Err(_) => continue,
                            };
                            if cs.n >= *fuc || cs.n > 400 || !cs.all_v_one() {
                                continue;
                            }
                            if dsx::manifold_check(&cs).is_err() || !cs.is_connected() || dsx::covering_degree(&cs, &s).is_none() {
                                continue;
                            }
                            let h = match homology::h1(&cs) {
                                Ok(h) => h,
                                Err(_) => continue,
                            };
                            if h.is_empty() || kept.iter().any(|(n, hh)| *n == cs.n && *hh == h) {
                                continue;
                            }
                            kept.push((cs.n, h.clone()));
                            out.push(format!(
                                "{}\t{}\t{}\t{}",
                                text,
                                w.iter().map(|x| x.to_string()).collect::<Vec<_>>().join(" "),
                                cs.n,
                                h.iter().map(|x| x.to_string()).collect::<Vec<_>>().join(",")
                            ));
                        }
                    }
                    out
                })
            })
            .collect();
        hs.into_iter().map(|h| h.join().unwrap_or_default()).collect()
    });
    let mut all: Vec<String> = results.into_iter().flatten().collect();
    all.sort();
    std::fs::write(&args[1], all.join("\n") + "\n").expect("write");
    println!("{} manifold covers with non-trivial finite H1 for {} symbols", all.len(), items.len());
    0
}

/// args: <outfile> [k1_cube] [k1_hex] [k2]
pub fn curate_sg_witnesses(args: &[String]) -> i32 {
    use crate::check::repo_path;
    use crate::dsx::Sym;
    use crate::exec::orbifold_invariant_string;
    use crate::plan::{CUBE, HEX_PRISM};
    use rust_dsymbols::covers::covers;
    use rust_dsymbols::dsets::DSet;
    use std::collections::{BTreeMap, BTreeSet};
    use std::sync::Mutex;
    let k1c: usize = args.get(1).and_then(|s| s.parse().ok()).unwrap_or(12);
    let k1h: usize = args.get(2).and_then(|s| s.parse().ok()).unwrap_or(8);
    let k2: usize = args.get(3).and_then(|s| s.parse().ok()).unwrap_or(6);
    let table: BTreeSet<String> = std::fs::read_to_string(format!("{}/src/data/euclideanInvariants.data", repo_path()))
        .expect("table")
        .split_whitespace()
        .filter(|s| !s.starts_with('#') && s.ends_with('/'))
        .map(|s| s.to_string())
        .collect();
    // inv -> (size, base, k1, j1, k2, j2)
    let found: Mutex<BTreeMap<String, (usize, String, usize, usize, usize, usize)>> = Mutex::new(BTreeMap::new());
    let mut level1: Vec<(String, usize, usize, rust_dsymbols::dsyms::PartialDSym)> = vec![];
    // maximal-symmetry literals: Pm-3m (cube), P6/mmm (<167.3>), and the other cubic
    // literals of the corpus, whose covers reach glide/screw variants at lower index
    let others: [(&str, usize); 5] = [
        (HEX_PRISM, k1h),
        ("<1.1:3 3:1 2 3,1 3,2 3,1 2 3:3 4,3,4 6>", k1h),
        ("<1.1:2 3:1 2,1 2,1 2,2:3 3,3 4,4>", k1h),
        ("<1.1:6 3:2 4 6,1 2 3 5 6,3 4 5 6,2 3 4 5 6:6 4,2 3 3,8 4 4>", k1h.min(6)),
        ("<1.1:4 3:2 4,1 2 3 4,3 4,2 4:4 6,2 6,4>", k1h.min(6)),
    ];
    for (base, k1) in std::iter::once((CUBE, k1c)).chain(others.iter().cloned()) {
        let s = Sym::parse(base).unwrap().to_partial();
        for (j1, c1) in covers(&s, k1).into_iter().enumerate() {
            level1.push((base.to_string(), k1, j1, c1));
        }
    }
    println!("{} first-level covers; table has {} entries", level1.len(), table.len());
    let next = std::sync::atomic::AtomicUsize::new(0);
    std::thread::scope(|sc| {
        for _ in 0..16 {
            sc.spawn(|| loop {
                let i = next.fetch_add(1, std::sync::atomic::Ordering::SeqCst);
                if i >= level1.len() {
                    break;
                }
                let (base, k1, j1, c1) = &level1[i];
                let r = std::panic::catch_unwind(std::panic::AssertUnwindSafe(|| {
                    let mut out = vec![];
                    for (j2, c2) in covers(c1, k2).into_iter().enumerate() {
                        let inv = orbifold_invariant_string(&c2);
                        out.push((inv, c2.size(), j2));
                    }
                    out
                }));
                if let Ok(list) = r {
                    let mut f = found.lock().unwrap();
                    for (inv, size, j2) in list {
                        if !table.contains(&inv) {
                            println!("NOT IN TABLE: {} (cover {} of cover {} of {})", inv, j2, j1, base);
                            continue;
                        }
                        let better = match f.get(&inv) {
                            None => true,
                            Some(old) => (size, *j1, j2) < (old.0, old.3, old.5),
                        };
                        if better {
                            f.insert(inv, (size, base.clone(), *k1, *j1, k2, j2));
                        }
                    }
                }
            });
        }
    });
    let f = found.into_inner().unwrap();
    let mut out = String::new();
    for (inv, (size, base, k1, j1, k2, j2)) in f.iter() {
        out.push_str(&format!("{}\t{} {} {} {}\t{}\t{}\n", base, k1, j1, k2, j2, size, inv));
    }
    std::fs::write(&args[0], out).expect("write");
    let missing: Vec<&String> = table.iter().filter(|t| !f.contains_key(*t)).collect();
    println!("witnesses for {} of {} table entries; missing: {:?}", f.len(), table.len(), missing);
    0
}
