//! Self-tests of the simulator itself (determinism, hook transparency).
//! `dump-logs` writes the event logs of the first N exploration runs of a
//! plan, sorted by run index, so that invocations with different worker
//! counts, repetitions and builds (cfg on/off) can be compared byte by byte.

use std::io::Write;
use std::time::Duration;

use crate::corpus::{Corpus, Entry};
use crate::exec::{hooks_compiled, Record};
use crate::plan::{kplus, Census, CoverCounts, Planner, Tier};
use crate::pool::{run_collect, PoolConfig};

/// args: <prop> <tier> <workers> <count> <outfile> [--outcomes-only] [--no-steer]
pub fn dump_logs(args: &[String], seed: u64) -> i32 {
    if args.len() < 5 {
        eprintln!("dump-logs <C16|C17> <quick|thorough> <workers> <count> <outfile> [--outcomes-only] [--no-steer]");
        return 2;
    }
    let prop = args[0].clone();
    let tier = if args[1] == "thorough" { Tier::Thorough } else { Tier::Quick };
    let workers: usize = args[2].parse().unwrap_or(4);
    let count: usize = args[3].parse().unwrap_or(1000);
    let outfile = args[4].clone();
    let outcomes_only = args.iter().any(|a| a == "--outcomes-only");
    // --no-steer plans as a build without hooks would, so that cfg-on and
    // cfg-off builds execute the same specs (hook transparency test)
    let hooks = hooks_compiled() && !args.iter().any(|a| a == "--no-steer");
    let corpus = match Corpus::load(4) {
        Ok(c) => c,
        Err(e) => {
            eprintln!("corpus: {}", e);
            return 2;
        }
    };
    let cfg = PoolConfig { workers, chunk: 8, run_budget: Duration::from_secs(120), deadline: None, thorough: tier == Tier::Thorough };
    let mut planner = Planner::new(seed, &prop, tier, hooks);
    let mut census_entries: Vec<&Entry> = corpus.g.iter().collect();
    census_entries.extend(corpus.k0.iter());
    census_entries.extend(corpus.finite.iter());
    let census_specs = planner.census(&census_entries);
    let census_recs = run_collect(&census_specs, &cfg);
    let census: Vec<Census> = census_recs
        .iter()
        .map(|r| match r {
            Some(r) if r.status == "ran" => Census { class: r.outcome.clone(), reason: r.detail.clone(), n_decisions: r.decisions.len() },
            _ => Census::default(),
        })
        .collect();
    let census_g: Vec<Census> = census[..corpus.g.len()].to_vec();
    let (kp, _) = kplus(&corpus);
    let mut cover_bases: Vec<(&Entry, bool)> = corpus.k0.iter().map(|e| (e, true)).collect();
    for (gi, e) in corpus.g.iter().enumerate() {
        if kp[gi] || census_g[gi].interesting() {
            cover_bases.push((e, kp[gi]));
        }
    }
    let cover_counts = CoverCounts::compute(&cover_bases, if tier == Tier::Thorough { 3 } else { 2 });
    let specs = if prop == "C17" {
        planner.c17_stage_b(&corpus, &census_g, &kp, &cover_counts)
    } else {
        planner.c16_stage_b(&corpus, &census_g, &kp, &cover_counts)
    };
    // an evenly spread sample of the plan, so every block kind is represented
    let stride = (specs.len() / count.max(1)).max(1);
    let sample: Vec<_> = specs.iter().step_by(stride).take(count).cloned().collect();
    let recs = run_collect(&sample, &cfg);
    let mut lines: Vec<(u64, String)> = vec![];
    let dump = |r: &Record| -> String {
        if outcomes_only {
            format!("{} {} {} {} {:016x} {:?}", r.idx, r.status, r.outcome, r.detail, r.out_fp, r.failures)
        } else {
            r.log_json().to_string()
        }
    };
    for r in census_recs.iter().flatten() {
        lines.push((r.idx, dump(r)));
    }
    for r in recs.iter().flatten() {
        lines.push((r.idx, dump(r)));
    }
    lines.sort();
    let mut f = std::fs::File::create(&outfile).expect("create outfile");
    for (_, l) in &lines {
        writeln!(f, "{}", l).unwrap();
    }
    println!("dumped {} logs ({} census + {} exploration) to {}", lines.len(), census_recs.len(), recs.len(), outfile);
    0
}
