//! The simulator's own PRNG (SplitMix64). Every random choice of a batch is
//! derived from VERIF_SEED through this file; `rand`/`proptest` are not used
//! so that there is exactly one entropy path (they would call `getrandom`).

#[derive(Clone, Debug)]
pub struct SplitMix64 {
    state: u64,
}

pub fn mix(mut z: u64) -> u64 {
    z = z.wrapping_add(0x9E37_79B9_7F4A_7C15);
    z = (z ^ (z >> 30)).wrapping_mul(0xBF58_476D_1CE4_E5B9);
    z = (z ^ (z >> 27)).wrapping_mul(0x94D0_49BB_1331_11EB);
    z ^ (z >> 31)
}

/// Hash a list of integers into one seed (order-sensitive).
pub fn hmix(parts: &[u64]) -> u64 {
    let mut h = 0x243F_6A88_85A3_08D3u64;
    for &p in parts {
        h = mix(h ^ mix(p));
    }
    h
}

/// FNV-1a over bytes; used for fingerprints in logs (stable across builds).
pub fn fnv64(bytes: &[u8]) -> u64 {
    let mut h = 0xcbf2_9ce4_8422_2325u64;
    for &b in bytes {
        h ^= b as u64;
        h = h.wrapping_mul(0x0000_0100_0000_01B3);
    }
    h
}

impl SplitMix64 {
    pub fn new(seed: u64) -> Self {
        SplitMix64 { state: seed }
    }

    pub fn next_u64(&mut self) -> u64 {
        self.state = self.state.wrapping_add(0x9E37_79B9_7F4A_7C15);
        let mut z = self.state;
        z = (z ^ (z >> 30)).wrapping_mul(0xBF58_476D_1CE4_E5B9);
        z = (z ^ (z >> 27)).wrapping_mul(0x94D0_49BB_1331_11EB);
        z ^ (z >> 31)
    }

    /// Uniform in 0..n (n > 0); slight modulo bias is irrelevant here.
    pub fn below(&mut self, n: usize) -> usize {
        (self.next_u64() % (n as u64)) as usize
    }

    pub fn chance(&mut self, num: u64, den: u64) -> bool {
        self.next_u64() % den < num
    }

    /// Fisher-Yates permutation of 1..=n, returned 1-based (`p[0] == 0`).
    pub fn permutation(&mut self, n: usize) -> Vec<usize> {
        let mut p: Vec<usize> = (0..=n).collect();
        for i in (2..=n).rev() {
            let j = 1 + self.below(i);
            p.swap(i, j);
        }
        p
    }
}
