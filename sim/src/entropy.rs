//! Seam R: the OS entropy source.
//!
//! std's `RandomState` takes its per-thread SipHash keys from `getrandom(2)`,
//! which std resolves through a weak symbol. Defining the symbol in this
//! binary puts the only source of nondeterminism of the code under test under
//! the simulator's control: a thread's first `RandomState::new()` receives the
//! 16 bytes chosen below, every later one on that thread (k0 + n, k1).
//!
//! Nothing here allocates or touches a hash container.

use std::cell::Cell;
use std::sync::atomic::{AtomicU64, Ordering};

use crate::prng::mix;

thread_local! {
    static KEYS: Cell<(u64, u64, bool)> = const { Cell::new((0, 0, false)) };
    static CALLS: Cell<u64> = const { Cell::new(0) };
}

/// Number of interposed calls, process-wide (self-test: must move).
pub static GLOBAL_CALLS: AtomicU64 = AtomicU64::new(0);
/// Calls that arrived on a thread without explicit keys.
pub static UNKEYED_CALLS: AtomicU64 = AtomicU64::new(0);
/// Keys for threads that were not given any (main, coordinator helpers):
/// derived from VERIF_SEED, never from the kernel.
static FALLBACK: AtomicU64 = AtomicU64::new(0x5EED_5EED_5EED_5EED);

pub fn set_fallback_seed(seed: u64) {
    FALLBACK.store(mix(seed ^ 0xFA11_BAC4), Ordering::SeqCst);
}

pub fn set_thread_keys(k0: u64, k1: u64) {
    KEYS.with(|k| k.set((k0, k1, true)));
}

pub fn thread_calls() -> u64 {
    CALLS.with(|c| c.get())
}

/// # Safety
/// Called by libc users with a valid buffer of `len` bytes.
#[cfg_attr(not(feature = "real_entropy"), no_mangle)]
pub unsafe extern "C" fn getrandom(buf: *mut u8, len: usize, _flags: u32) -> isize {
    GLOBAL_CALLS.fetch_add(1, Ordering::Relaxed);
    let n = CALLS.with(|c| {
        let n = c.get();
        c.set(n + 1);
        n
    });
    let (k0, k1, set) = KEYS.with(|k| k.get());
    let (k0, k1) = if set {
        (k0, k1)
    } else {
        UNKEYED_CALLS.fetch_add(1, Ordering::Relaxed);
        let f = FALLBACK.load(Ordering::SeqCst);
        (mix(f), mix(f ^ 1))
    };
    // First call on a thread: bytes 0..8 = k0, 8..16 = k1 (native endian, as
    // std reads them). Further bytes / calls: a SplitMix stream of the keys.
    let mut i = 0usize;
    let mut ctr = n.wrapping_mul(0x1_0000);
    while i < len {
        let word = if n == 0 && i < 8 {
            k0
        } else if n == 0 && i < 16 {
            k1
        } else {
            ctr = ctr.wrapping_add(1);
            mix(k0 ^ mix(k1 ^ ctr))
        };
        let bytes = word.to_ne_bytes();
        let take = (len - i).min(8);
        std::ptr::copy_nonoverlapping(bytes.as_ptr(), buf.add(i), take);
        i += take;
    }
    len as isize
}

/// Outcome of a closure run on a fresh thread under chosen keys.
pub struct ThreadOutcome<R> {
    pub result: Result<R, String>,
    /// interposed calls made by that thread (expected: 0 or 1)
    pub entropy_calls: u64,
}

thread_local! {
    static LAST_PANIC: std::cell::RefCell<Option<String>> = const { std::cell::RefCell::new(None) };
}

pub fn install_panic_hook() {
    std::panic::set_hook(Box::new(|info| {
        let loc = info
            .location()
            .map(|l| format!("{}:{}", l.file(), l.line()))
            .unwrap_or_else(|| "?".to_string());
        let msg = if let Some(s) = info.payload().downcast_ref::<&str>() {
            s.to_string()
        } else if let Some(s) = info.payload().downcast_ref::<String>() {
            s.clone()
        } else {
            "<non-string payload>".to_string()
        };
        LAST_PANIC.with(|p| *p.borrow_mut() = Some(format!("{} @ {}", msg, loc)));
    }));
}

pub const RUN_STACK: usize = 512 << 20;

/// Run `f` on a fresh thread whose first `RandomState` gets exactly (k0, k1).
/// The caller blocks until it finishes: never two threads at once per worker.
pub fn on_fresh_thread<R, F>(k0: u64, k1: u64, f: F) -> ThreadOutcome<R>
where
    R: Send + 'static,
    F: FnOnce() -> R + Send + 'static,
{
    let handle = std::thread::Builder::new()
        .stack_size(RUN_STACK)
        .spawn(move || {
            set_thread_keys(k0, k1);
            let r = std::panic::catch_unwind(std::panic::AssertUnwindSafe(f));
            let msg = LAST_PANIC.with(|p| p.borrow_mut().take());
            let calls = thread_calls();
            match r {
                Ok(v) => (Ok(v), calls),
                Err(_) => (Err(msg.unwrap_or_else(|| "panic (no message)".into())), calls),
            }
        })
        .expect("spawn run thread");
    match handle.join() {
        Ok((result, entropy_calls)) => ThreadOutcome { result, entropy_calls },
        Err(_) => ThreadOutcome {
            result: Err("run thread died outside catch_unwind".into()),
            entropy_calls: 0,
        },
    }
}

/// Start-up self-test of the seam: equal keys => equal iteration order,
/// different keys => different order, and the interposer was really called.
/// Returns Err(reason) when the seam does not control `RandomState`.
pub fn selftest() -> Result<(), String> {
    fn order() -> Vec<u32> {
        let s: std::collections::HashSet<u32> = (0..64).collect();
        s.into_iter().collect()
    }
    fn order_second() -> (Vec<u32>, Vec<u32>) {
        (order(), order())
    }
    let before = GLOBAL_CALLS.load(Ordering::SeqCst);
    let a = on_fresh_thread(11, 22, order_second);
    let b = on_fresh_thread(11, 22, order_second);
    let c = on_fresh_thread(12, 22, order_second);
    let d = on_fresh_thread(99, 77, order_second);
    let after = GLOBAL_CALLS.load(Ordering::SeqCst);
    let (a, b, c, d) = match (a.result, b.result, c.result, d.result) {
        (Ok(a), Ok(b), Ok(c), Ok(d)) => (a, b, c, d),
        _ => return Err("self-test thread panicked".into()),
    };
    if after < before + 4 {
        return Err(format!(
            "interposed getrandom was called {} times for 4 threads: std no longer takes RandomState keys from it",
            after - before
        ));
    }
    if a != b {
        return Err("equal keys gave different HashSet iteration orders".into());
    }
    if a.0 == d.0 {
        return Err("different keys gave identical iteration order of 64 elements".into());
    }
    // documented std behaviour this harness relies on: second container on a
    // thread uses (k0 + 1, k1)
    if a.1 != c.0 {
        return Err("second RandomState on a thread is not (k0+1,k1); key schedule of std changed".into());
    }
    Ok(())
}
