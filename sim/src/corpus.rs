//! Input corpora (files under /verif/corpus) and their harness-side
//! classification.

use std::path::{Path, PathBuf};

use crate::dsx::{self, Sym};

pub fn verif_root() -> PathBuf {
    if let Ok(p) = std::env::var("VERIF_ROOT") {
        return PathBuf::from(p);
    }
    // the binary lives in <root>/sim/target/release/
    let exe = std::env::current_exe().unwrap_or_default();
    for anc in exe.ancestors() {
        if anc.join("properties.jsonl").exists() && anc.join("corpus").exists() {
            return anc.to_path_buf();
        }
    }
    PathBuf::from("/verif")
}

#[derive(Clone, Debug)]
pub struct Entry {
    pub id: String,
    pub text: String,
    pub provenance: String,
}

fn load_list(path: &Path, prefix: &str) -> Result<Vec<Entry>, String> {
    let content = std::fs::read_to_string(path).map_err(|e| format!("{}: {}", path.display(), e))?;
    let mut out = vec![];
    for line in content.lines() {
        let line = line.trim_end();
        if line.is_empty() || line.starts_with('#') {
            continue;
        }
        let (text, prov) = match line.split_once('\t') {
            Some((a, b)) => (a.trim(), b.trim()),
            None => (line.trim(), ""),
        };
        // every corpus line is parsed and validated by harness code
        let s = Sym::parse(text).map_err(|e| format!("{}: {:?}: {}", path.display(), text, e))?;
        s.validate().map_err(|e| format!("{}: {:?}: {}", path.display(), text, e))?;
        out.push(Entry { id: format!("{}{}", prefix, out.len()), text: s.to_text(), provenance: prov.to_string() });
    }
    Ok(out)
}

pub struct Corpus {
    pub k0: Vec<Entry>,
    pub finite: Vec<Entry>,
    /// generated family: all symbols with n <= 4 (ids G..), followed from
    /// index `extra_from` on by the filter-passing members with n = 5, 6 (ids H..)
    pub g: Vec<Entry>,
    pub extra_from: usize,
    /// members of G with finite group and a manifold universal cover
    pub finite_small: Vec<Entry>,
    /// (symbol, word): closed manifolds with non-trivial finite fundamental group
    pub manifold_covers: Vec<(Entry, Vec<isize>)>,
    /// one known-euclidean witness per invariant-table entry:
    /// (base literal as entry W<i>, [k1, j1, k2, j2])
    pub sg_witnesses: Vec<(Entry, [usize; 4])>,
    /// (k, seed) of closed manifolds from seeded random face pairings of k
    /// tetrahedra (gen::random_triangulation), curated with
    /// `dsym_sim curate-triangulations`; every use regenerates the D-set and
    /// re-verifies it with dsx::manifold_check
    pub triangulations: Vec<(usize, u64)>,
}

impl Corpus {
    pub fn load(max_g_size: usize, with_g7: bool) -> Result<Corpus, String> {
        let root = verif_root().join("corpus");
        let k0 = load_list(&root.join("known_euclidean.txt"), "K")?;
        let finite = load_list(&root.join("known_finite.txt"), "F")?;
        let mut g = load_list(&root.join("G4.txt"), "G")?;
        g.retain(|e| Sym::parse(&e.text).map(|s| s.n <= max_g_size).unwrap_or(false));
        let extra_from = g.len();
        g.extend(load_list(&root.join("G56_filter_passing.txt"), "H")?);
        if with_g7 {
            g.extend(load_list(&root.join("G7_filter_passing.txt"), "I")?);
        }
        // 8 chambers: the two symbols that reach a fallback branch of
        // is_euclidean always (J0, J1), the other 39,499 in the thorough tier
        let mut g8 = load_list(&root.join("G8_filter_passing.txt"), "J")?;
        if !with_g7 {
            g8.truncate(2);
        }
        g.extend(g8);
        let mut finite_small = load_list(&root.join("finite_small.txt"), "S")?;
        if with_g7 {
            // thorough tier: also the large universal covers (601..9216 chambers)
            let large = load_list(&root.join("finite_large.txt"), "T")?;
            finite_small.extend(large);
        }
        let mut manifold_covers = vec![];
        let path = root.join("finite_manifold_covers.txt");
        let content = std::fs::read_to_string(&path).map_err(|e| format!("{}: {}", path.display(), e))?;
        for line in content.lines() {
            if line.starts_with('#') || line.trim().is_empty() {
                continue;
            }
            let parts: Vec<&str> = line.split('\t').collect();
            if parts.len() < 2 {
                continue;
            }
            let s = Sym::parse(parts[0]).map_err(|e| format!("{}: {}", path.display(), e))?;
            let word: Vec<isize> = parts[1].split_whitespace().filter_map(|x| x.parse().ok()).collect();
            let id = format!("M{}", manifold_covers.len());
            manifold_covers.push((Entry { id, text: s.to_text(), provenance: parts[2..].join(" ") }, word));
        }
        let mut sg_witnesses = vec![];
        let path = root.join("space_group_witnesses.txt");
        let content = std::fs::read_to_string(&path).map_err(|e| format!("{}: {}", path.display(), e))?;
        for line in content.lines() {
            if line.starts_with('#') || line.trim().is_empty() {
                continue;
            }
            let parts: Vec<&str> = line.split('\t').collect();
            if parts.len() < 2 {
                continue;
            }
            let s = Sym::parse(parts[0]).map_err(|e| format!("{}: {}", path.display(), e))?;
            let nums: Vec<usize> = parts[1].split_whitespace().filter_map(|x| x.parse().ok()).collect();
            if nums.len() != 4 {
                return Err(format!("{}: bad cover chain {:?}", path.display(), parts[1]));
            }
            let id = format!("W{}", sg_witnesses.len());
            sg_witnesses.push((Entry { id, text: s.to_text(), provenance: parts[2..].join(" ") }, [nums[0], nums[1], nums[2], nums[3]]));
        }
        let mut triangulations = vec![];
        let path = root.join("random_triangulations.txt");
        let content = std::fs::read_to_string(&path).map_err(|e| format!("{}: {}", path.display(), e))?;
        for line in content.lines() {
            if line.starts_with('#') || line.trim().is_empty() {
                continue;
            }
            let parts: Vec<&str> = line.split('\t').collect();
            match (parts.first().and_then(|x| x.trim().parse::<usize>().ok()), parts.get(1).and_then(|x| x.trim().parse::<u64>().ok())) {
                (Some(k), Some(seed)) if k >= 1 && k <= 8 => triangulations.push((k, seed)),
                _ => return Err(format!("{}: bad line {:?}", path.display(), line)),
            }
        }
        Ok(Corpus { k0, finite, g, extra_from, finite_small, manifold_covers, sg_witnesses, triangulations })
    }
}

/// Does `g` encode the same tiling as the symbol whose minimal image is `m`?
/// Independent of the repository: own morphism search onto `m`.
pub fn maps_onto(g: &Sym, m: &Sym) -> bool {
    g.dim == m.dim && g.n % m.n == 0 && dsx::covering_degree(g, m).is_some()
}
