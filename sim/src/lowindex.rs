//! Independent instrument: number of conjugacy classes of subgroups of index
//! <= k (k <= 4) of a finitely presented group, by enumerating transitive
//! permutation representations G -> S_n and identifying those that differ by
//! a relabelling of the points. Uses nothing of the repository's coset-table
//! code. (Needed because the repository's low-index enumeration - property
//! C12, outside this technique's reach - miscounts for some presentations:
//! for a presentation of Z^3 with a redundant trivial generator it returns 54
//! instead of 56 classes of index <= 4, see DESIGN.md 9.5.)

use std::collections::BTreeSet;

type Perm = Vec<u8>;

fn all_perms(n: usize) -> Vec<Perm> {
    let mut out = vec![];
    let mut cur: Vec<u8> = (0..n as u8).collect();
    fn rec(k: usize, cur: &mut Vec<u8>, out: &mut Vec<Perm>) {
        if k == cur.len() {
            out.push(cur.clone());
            return;
        }
        for i in k..cur.len() {
            cur.swap(k, i);
            rec(k + 1, cur, out);
            cur.swap(k, i);
        }
    }
    rec(0, &mut cur, &mut out);
    out.sort();
    out
}

fn inverse(p: &Perm) -> Perm {
    let mut q = vec![0u8; p.len()];
    for (i, &x) in p.iter().enumerate() {
        q[x as usize] = i as u8;
    }
    q
}

/// image of point x under the word (applied left to right)
fn trace(word: &[isize], imgs: &[Option<(Perm, Perm)>], x: u8) -> u8 {
    let mut y = x;
    for &g in word {
        let (p, pinv) = imgs[g.unsigned_abs() - 1].as_ref().unwrap();
        y = if g > 0 { p[y as usize] } else { pinv[y as usize] };
    }
    y
}

pub struct Counter<'a> {
    nr_gens: usize,
    relators: &'a [Vec<isize>],
    /// relators that become checkable once generator j (0-based) is assigned
    ready: Vec<Vec<usize>>,
    pub nodes: u64,
    pub budget: u64,
}

impl<'a> Counter<'a> {
    pub fn new(nr_gens: usize, relators: &'a [Vec<isize>], budget: u64) -> Counter<'a> {
        let mut ready = vec![vec![]; nr_gens.max(1)];
        for (ri, r) in relators.iter().enumerate() {
            let m = r.iter().map(|g| g.unsigned_abs()).max().unwrap_or(0);
            if m >= 1 && m <= nr_gens {
                ready[m - 1].push(ri);
            }
        }
        Counter { nr_gens, relators, ready, nodes: 0, budget }
    }

    /// Number of equivalence classes of transitive actions on exactly n points.
    /// None if the node budget is exhausted.
    pub fn classes_of_index(&mut self, n: usize) -> Option<usize> {
        if n == 1 {
            return Some(1);
        }
        if self.nr_gens == 0 {
            return Some(0);
        }
        let perms = all_perms(n);
        let invs: Vec<Perm> = perms.iter().map(inverse).collect();
        let mut imgs: Vec<Option<(Perm, Perm)>> = vec![None; self.nr_gens];
        let mut found: BTreeSet<Vec<Perm>> = BTreeSet::new();
        if !self.rec(0, n, &perms, &invs, &mut imgs, &mut found) {
            return None;
        }
        Some(found.len())
    }

    fn rec(&mut self, j: usize, n: usize, perms: &[Perm], invs: &[Perm], imgs: &mut Vec<Option<(Perm, Perm)>>, found: &mut BTreeSet<Vec<Perm>>) -> bool {
        if j == self.nr_gens {
            // transitivity
            let mut seen = vec![false; n];
            seen[0] = true;
            let mut stack = vec![0u8];
            let mut cnt = 1;
            while let Some(x) = stack.pop() {
                for im in imgs.iter() {
                    let (p, pinv) = im.as_ref().unwrap();
                    for y in [p[x as usize], pinv[x as usize]] {
                        if !seen[y as usize] {
                            seen[y as usize] = true;
                            cnt += 1;
                            stack.push(y);
                        }
                    }
                }
            }
            if cnt == n {
                // canonical representative under relabelling of the points
                let tuple: Vec<&Perm> = imgs.iter().map(|im| &im.as_ref().unwrap().0).collect();
                let mut best: Option<Vec<Perm>> = None;
                for (s, sinv) in perms.iter().zip(invs.iter()) {
                    // conjugate: x -> s(p(sinv(x)))
                    let conj: Vec<Perm> = tuple.iter().map(|p| (0..n).map(|x| s[p[sinv[x] as usize] as usize]).collect()).collect();
                    if best.as_ref().map_or(true, |b| &conj < b) {
                        best = Some(conj);
                    }
                }
                found.insert(best.unwrap());
            }
            return true;
        }
        for (p, pinv) in perms.iter().zip(invs.iter()) {
            self.nodes += 1;
            if self.nodes > self.budget {
                return false;
            }
            imgs[j] = Some((p.clone(), pinv.clone()));
            let ok = self.ready[j].iter().all(|&ri| {
                let r = &self.relators[ri];
                (0..n as u8).all(|x| trace(r, imgs, x) == x)
            });
            if ok && !self.rec(j + 1, n, perms, invs, imgs, found) {
                return false;
            }
        }
        imgs[j] = None;
        true
    }
}

/// Number of conjugacy classes of subgroups of index <= k. None: budget hit.
pub fn class_count_upto(nr_gens: usize, relators: &[Vec<isize>], k: usize, budget: u64) -> Option<usize> {
    let mut c = Counter::new(nr_gens, relators, budget);
    let mut total = 0;
    for n in 1..=k {
        total += c.classes_of_index(n)?;
    }
    Some(total)
}

#[cfg(test)]
mod tests {
    use super::*;

    #[test]
    fn z3_counts() {
        let rels = vec![vec![1, 2, -1, -2], vec![1, 3, -1, -3], vec![2, 3, -2, -3]];
        assert_eq!(class_count_upto(3, &rels, 1, 1 << 30), Some(1));
        assert_eq!(class_count_upto(3, &rels, 2, 1 << 30), Some(8));
        assert_eq!(class_count_upto(3, &rels, 3, 1 << 30), Some(21));
        assert_eq!(class_count_upto(3, &rels, 4, 1 << 30), Some(56));
    }

    #[test]
    fn z3_with_trivial_generator() {
        // the presentation on which the repository's coset_tables returns 54
        let rels = vec![
            vec![1],
            vec![1, 2, 3, -2, -1, -3],
            vec![1, 2, 4, -2, -1, -4],
            vec![1, 2, -3, 4, -2, -1, 3, -4],
            vec![1, 2, -4, 3, 4, -2, -1, -3],
            vec![3, 4, -3, -4],
        ];
        assert_eq!(class_count_upto(4, &rels, 4, 1 << 30), Some(56));
    }

    #[test]
    fn small_groups() {
        // S3 = <a, b | a^2, b^2, (ab)^3>: classes of subgroups: index 1, 2, 3, 6 -> <=4: 3
        let rels = vec![vec![1, 1], vec![2, 2], vec![1, 2, 1, 2, 1, 2]];
        assert_eq!(class_count_upto(2, &rels, 4, 1 << 30), Some(3));
        // Z: one subgroup of each index
        assert_eq!(class_count_upto(1, &[], 4, 1 << 30), Some(4));
        // free group F2: conjugacy classes of subgroups of index 1, 2, 3: 1, 3, 7
        assert_eq!(class_count_upto(2, &[], 3, 1 << 30), Some(11));
        // Z6 = <a | a^6>: indices 1, 2, 3 (6 is > 4)
        assert_eq!(class_count_upto(1, &[vec![1, 1, 1, 1, 1, 1]], 4, 1 << 30), Some(3));
    }
}
