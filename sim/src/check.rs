//! The check driver: census -> plan -> simulated runs -> oracles ->
//! minimisation -> replay file -> evidence.

use std::collections::BTreeMap;
use std::path::{Path, PathBuf};
use std::process::Command;
use std::time::{Duration, Instant};

use serde_json::{json, Value};

use rust_dsymbols::derived::{canonical, minimal_image};

use crate::agg::{Agg, Violation};
use crate::corpus::{verif_root, Corpus, Entry};
use crate::dsx::Sym;
use crate::exec::{hooks_compiled, Record};
use crate::minimise::Shrinker;
use crate::plan::{kplus, Census, CoverCounts, Planner, Tier};
use crate::pool::{run_collect, run_specs, PoolConfig};
use crate::prng::fnv64;
use crate::spec::Spec;

pub const EXIT_OK: i32 = 0;
pub const EXIT_VIOLATION: i32 = 1;
pub const EXIT_HARNESS: i32 = 2;

pub fn repo_path() -> String {
    std::env::var("VERIF_REPO").unwrap_or_else(|_| "/repo".to_string())
}

fn git_head() -> (String, bool) {
    let repo = repo_path();
    let head = Command::new("git").args(["-C", &repo, "rev-parse", "HEAD"]).output().ok().map(|o| String::from_utf8_lossy(&o.stdout).trim().to_string()).unwrap_or_default();
    let dirty = Command::new("git")
        .args(["-C", &repo, "status", "--porcelain", "--untracked-files=no"])
        .output()
        .ok()
        .map(|o| !o.stdout.is_empty())
        .unwrap_or(false);
    (head, dirty)
}

/// "Which tiling is this": the canonical minimal image of the symbol or of
/// its dual, whichever text is smaller - a tiling and its dual are the same
/// object for the purpose of identifying a finding.
pub fn tiling_of(text: &str) -> String {
    let r = std::panic::catch_unwind(|| {
        let s = Sym::parse(text).ok()?;
        let a = canonical(&minimal_image(&s.to_partial())).to_string();
        let b = canonical(&minimal_image(&s.dual().to_partial())).to_string();
        Some(if a <= b { a } else { b })
    });
    match r {
        Ok(Some(t)) => t,
        _ => "?".to_string(),
    }
}

#[derive(Clone, Debug)]
pub struct Finding {
    pub status: String,
    pub property: String,
    pub class: String,
    pub tiling: String,
    pub operation: String,
    pub replay: String,
    pub what: String,
    pub commit: String,
}

pub fn load_findings() -> Result<Vec<Finding>, String> {
    let path = verif_root().join("known_findings.json");
    if !path.exists() {
        return Ok(vec![]);
    }
    let v: Value = serde_json::from_str(&std::fs::read_to_string(&path).map_err(|e| e.to_string())?).map_err(|e| format!("known_findings.json: {}", e))?;
    let mut out = vec![];
    for f in v["findings"].as_array().cloned().unwrap_or_default() {
        let g = |k: &str| f[k].as_str().unwrap_or("").to_string();
        out.push(Finding {
            status: g("status"),
            property: g("property"),
            class: g("class"),
            tiling: g("tiling"),
            operation: g("operation"),
            replay: g("replay"),
            what: g("what"),
            commit: g("commit"),
        });
    }
    Ok(out)
}

fn matches_finding(f: &Finding, prop: &str, v: &Violation) -> bool {
    if f.status != "open" || f.property != prop || f.class != v.class {
        return false;
    }
    let w = match v.witnesses.last() {
        Some(w) => w,
        None => return false,
    };
    f.operation == w.op.name() && f.tiling == tiling_of(&w.base)
}

// ---------------------------------------------------------------- replay

pub struct Replay {
    pub property: String,
    pub class: String,
    pub specs: Vec<Spec>,
    pub log_fp: u64,
    pub raw: Value,
}

pub fn read_replay(path: &Path) -> Result<Replay, String> {
    let v: Value = serde_json::from_str(&std::fs::read_to_string(path).map_err(|e| format!("{}: {}", path.display(), e))?).map_err(|e| e.to_string())?;
    let specs = v["specs"].as_array().ok_or("replay without specs")?.iter().map(Spec::from_json).collect::<Result<Vec<_>, _>>()?;
    Ok(Replay {
        property: v["property"].as_str().ok_or("property")?.to_string(),
        class: v["class"].as_str().ok_or("class")?.to_string(),
        specs,
        log_fp: u64::from_str_radix(v["log_fp"].as_str().unwrap_or("0"), 16).unwrap_or(0),
        raw: v,
    })
}

fn log_fingerprint(recs: &[Record]) -> u64 {
    let mut s = String::new();
    for r in recs {
        s.push_str(&r.log_json().to_string());
        s.push('\n');
    }
    fnv64(s.as_bytes())
}

/// Execute the specs of a replay in fresh worker processes and re-evaluate
/// the oracles. Returns (classes seen, records).
pub fn execute_specs(specs: &[Spec], prop: &str, thorough: bool) -> (Vec<Violation>, Vec<Record>) {
    let cfg = PoolConfig { workers: specs.len().min(4).max(1), chunk: 1, run_budget: Duration::from_secs(run_budget_secs()), deadline: None, thorough, fresh_per_spec: false };
    let recs = run_collect(specs, &cfg);
    let mut agg = Agg::new(prop);
    let mut out = vec![];
    for (s, r) in specs.iter().zip(recs.iter()) {
        if let Some(r) = r {
            agg.absorb(s, r, true);
            out.push(r.clone());
        }
    }
    (agg.violations, out)
}

/// census runs are single calls on symbols of at most a few chambers
pub fn census_budget_secs() -> u64 {
    run_budget_secs().min(10)
}


/// Property-level difference between two records of the SAME spec (one
/// observed after some process history, one in a fresh process). None: the
/// same at the level the properties speak about.
pub fn property_level_difference(a: &Record, b: &Record) -> Option<String> {
    if a.outcome != b.outcome {
        return Some(format!("{}-after-history-vs-{}-fresh", a.outcome, b.outcome));
    }
    let fa: Vec<&String> = a.failures.iter().map(|f| &f.0).collect();
    let fb: Vec<&String> = b.failures.iter().map(|f| &f.0).collect();
    if fa != fb {
        return Some("oracle-failures-differ".into());
    }
    if a.outcome == "some" && a.detail != b.detail {
        return Some("different-image-after-history".into());
    }
    None
}

/// Run `seq` in ONE worker process, in order; records in order.
pub fn execute_sequence(seq: &[Spec], thorough: bool) -> Vec<Option<Record>> {
    let cfg = PoolConfig { workers: 1, chunk: seq.len().max(1), run_budget: Duration::from_secs(run_budget_secs()), deadline: None, thorough, fresh_per_spec: false };
    run_collect(seq, &cfg)
}

/// Run every spec in its own fresh worker process.
pub fn execute_fresh(specs: &[Spec], workers: usize, thorough: bool) -> Vec<Option<Record>> {
    let cfg = PoolConfig { workers, chunk: 1, run_budget: Duration::from_secs(run_budget_secs()), deadline: None, thorough, fresh_per_spec: true };
    run_collect(specs, &cfg)
}

/// History oracle: a record must be a function of its spec alone. A seeded
/// sample of the runs of this batch is executed again, each in a fresh worker
/// process, and compared with what was observed after whatever the long-lived
/// worker had executed before.
fn history_oracle(d: &mut Driver, specs: &[Spec]) {
    let samples = std::mem::take(&mut d.hist_samples);
    if samples.is_empty() {
        return;
    }
    let thorough = d.args.tier == Tier::Thorough;
    let again: Vec<Spec> = samples.iter().map(|s| s.0.clone()).collect();
    let fresh = execute_fresh(&again, d.args.workers, thorough);
    for ((spec, rec, hist), fr) in samples.iter().zip(fresh.into_iter()) {
        let fr = match fr {
            Some(r) if r.status == "ran" => r,
            _ => continue,
        };
        d.hist_checked += 1;
        match property_level_difference(rec, &fr) {
            Some(diff) => {
                d.violation_history = hist.iter().map(|&p| specs[p].clone()).collect();
                d.unknown.push(Violation {
                    class: format!("history:{}", diff),
                    detail: format!(
                        "the same run gives {:?}/{:?} after the {} runs its worker process had executed before, and {:?}/{:?} in a fresh process: the result depends on call history",
                        rec.outcome, rec.detail, hist.len(), fr.outcome, fr.detail
                    ),
                    group: spec.group.clone(),
                    witnesses: vec![spec.clone()],
                    records: vec![rec.clone()],
                });
                return;
            }
            None => {
                if rec.out_fp != fr.out_fp {
                    d.hist_output_differences += 1;
                }
            }
        }
    }
}

/// Shrink a process history while `history + [spec]` still ends in a record
/// that differs (at property level) from the fresh one.
fn shrink_history(history: Vec<Spec>, spec: &Spec, fresh: &Record, thorough: bool, deadline: Instant) -> Vec<Spec> {
    let still = |h: &[Spec]| -> bool {
        let mut seq = h.to_vec();
        seq.push(spec.clone());
        match execute_sequence(&seq, thorough).pop().flatten() {
            Some(r) if r.status == "ran" => property_level_difference(&r, fresh).is_some(),
            _ => false,
        }
    };
    let mut items = history;
    let mut gran = 2usize;
    let mut tests = 0;
    while !items.is_empty() && tests < 60 && Instant::now() < deadline {
        let n = items.len();
        let g = gran.min(n);
        let chunk = (n + g - 1) / g;
        let mut reduced = false;
        let mut start = 0;
        while start < n {
            let end = (start + chunk).min(n);
            let kept: Vec<Spec> = items[..start].iter().chain(items[end..].iter()).cloned().collect();
            tests += 1;
            if still(&kept) {
                items = kept;
                gran = (gran - 1).max(2);
                reduced = true;
                break;
            }
            start = end;
            if tests >= 60 || Instant::now() >= deadline {
                break;
            }
        }
        if !reduced {
            if g >= n {
                break;
            }
            gran = (gran * 2).min(n);
        }
    }
    items
}

pub fn run_budget_secs() -> u64 {
    std::env::var("VERIF_RUN_BUDGET_S").ok().and_then(|s| s.parse().ok()).unwrap_or(60)
}

/// `check --replay <file>`: exit 1 + VIOLATION line if it reproduces.
pub fn replay_cmd(path: &Path) -> i32 {
    let rp = match read_replay(path) {
        Ok(r) => r,
        Err(e) => {
            eprintln!("harness error: cannot read replay: {}", e);
            return EXIT_HARNESS;
        }
    };
    let thorough = rp.raw["tier"].as_str() == Some("thorough");
    let history: Vec<Spec> = rp.raw["history"].as_array().map(|a| a.iter().filter_map(|x| Spec::from_json(x).ok()).collect()).unwrap_or_default();
    if !history.is_empty() {
        // history replay: the history and then the specs in ONE worker process,
        // compared with the same specs in fresh processes
        let mut seq = history.clone();
        seq.extend(rp.specs.iter().cloned());
        let after: Vec<Record> = execute_sequence(&seq, thorough).into_iter().skip(history.len()).flatten().collect();
        let fresh: Vec<Record> = execute_fresh(&rp.specs, 1, thorough).into_iter().flatten().collect();
        let mut seen = vec![];
        for (a, f) in after.iter().zip(fresh.iter()) {
            println!("replay run idx={} after {} earlier runs in the same process: outcome={} detail={:?}; in a fresh process: outcome={} detail={:?}", a.idx, history.len(), a.outcome, a.detail, f.outcome, f.detail);
            if let Some(diff) = property_level_difference(a, f) {
                seen.push(format!("history:{}", diff));
            }
        }
        if seen.iter().any(|c| *c == rp.class) {
            let exact = log_fingerprint(&after) == rp.log_fp;
            println!("replay reproduces class {} ({})", rp.class, if exact { "event log identical to the recorded one" } else { "event log DIFFERS from the recorded one" });
            println!("VIOLATION property={} replay={}", rp.property, path.display());
            return EXIT_VIOLATION;
        }
        println!("replay does not reproduce class {} on this tree (classes seen: {:?})", rp.class, seen);
        return EXIT_OK;
    }
    let (viols, recs) = execute_specs(&rp.specs, &rp.property, thorough);
    let fp = log_fingerprint(&recs);
    for r in &recs {
        println!("replay run idx={} status={} outcome={} detail={:?} decisions={} failures={:?}", r.idx, r.status, r.outcome, r.detail, r.decisions.len(), r.failures);
        if let Some(b) = &r.first_bad_state {
            println!("  first bad intermediate state: {}", b);
        }
    }
    if viols.iter().any(|v| v.class == rp.class) {
        let exact = fp == rp.log_fp;
        println!("replay reproduces class {} ({})", rp.class, if exact { "event log identical to the recorded one" } else { "event log DIFFERS from the recorded one" });
        println!("VIOLATION property={} replay={}", rp.property, path.display());
        EXIT_VIOLATION
    } else {
        println!("replay does not reproduce class {} on this tree (classes seen: {:?})", rp.class, viols.iter().map(|v| v.class.clone()).collect::<Vec<_>>());
        EXIT_OK
    }
}

// ---------------------------------------------------------------- check

pub struct CheckArgs {
    pub prop: String,
    pub tier: Tier,
    pub seed: u64,
    pub workers: usize,
    pub evidence_path: Option<PathBuf>,
    pub max_runs: Option<usize>,
    pub wall_cap: Duration,
    /// triage mode: do not stop at the first unknown violation
    pub keep_going: bool,
}

struct Driver {
    args: CheckArgs,
    findings: Vec<Finding>,
    agg: Agg,
    known_hits: BTreeMap<String, u64>,
    unknown: Vec<Violation>,
    t0: Instant,
    runs_issued: usize,
    worker_deaths: usize,
    timeouts: usize,
    hit_deadline: bool,
    plan_size: usize,
    in_census: bool,
    /// history oracle: sampled (spec, record as observed, specs the same worker process ran before)
    hist_samples: Vec<(Spec, Record, Vec<usize>)>,
    /// worker history of the first unknown violation's last witness
    violation_history: Vec<Spec>,
    /// for every run (by spec idx): idx of the run the same worker PROCESS
    /// executed right before it (u64::MAX: first run of its process)
    prev_idx: Vec<u64>,
    /// the specs of the census and of the exploration stage (idx = position,
    /// exploration continuing where the census ends)
    census_specs: Vec<Spec>,
    explore_specs: Vec<Spec>,
    hist_checked: usize,
    hist_output_differences: usize,
}

impl Driver {
    fn pool_cfg(&self) -> PoolConfig {
        PoolConfig {
            workers: self.args.workers,
            chunk: 8,
            run_budget: Duration::from_secs(if self.in_census { census_budget_secs() } else { run_budget_secs() }),
            deadline: Some(self.t0 + self.args.wall_cap),
            thorough: self.args.tier == Tier::Thorough,
            fresh_per_spec: false,
        }
    }

    /// Run specs, absorbing records; stops at the first violation that is
    /// not a listed known finding.
    fn run_stage(&mut self, specs: &[Spec], judge: bool) -> Vec<Option<Record>> {
        let cfg = self.pool_cfg();
        let keep = specs.len() <= 100_000 && !judge;
        let mut kept: Vec<Option<Record>> = if keep { vec![None; specs.len()] } else { vec![] };
        let prop = self.args.prop.clone();
        let keep_going = self.args.keep_going;
        let stats = {
            let agg = &mut self.agg;
            let findings = &self.findings;
            let known_hits = &mut self.known_hits;
            let unknown = &mut self.unknown;
            let kept_ref = &mut kept;
            let mut hangs = 0usize;
            let unjudged_hangs = &mut hangs;
            let mut bh = 0usize;
            let builder_hangs = &mut bh;
            let hist_samples = &mut self.hist_samples;
            let violation_history = &mut self.violation_history;
            let prev_idx = &mut self.prev_idx;
            let seed = self.args.seed;
            let (sample_cap, sample_mod): (usize, u64) = if self.args.tier == Tier::Thorough { (1500, 600) } else { (240, 200) };
            run_specs(specs, &cfg, move |pos, rec, hist| {
                note_prev(prev_idx, specs, pos, hist);
                let new = agg.absorb(&specs[pos], &rec, judge);
                let mut go_on = true;
                for vi in new {
                    let v = agg.violations[vi].clone();
                    if let Some(f) = findings.iter().find(|f| matches_finding(f, &prop, &v)) {
                        *known_hits.entry(format!("{} {}", f.class, f.tiling)).or_insert(0) += 1;
                    } else {
                        if unknown.is_empty() {
                            *violation_history = hist.iter().map(|&p| specs[p].clone()).collect();
                        }
                        unknown.push(v);
                        go_on = keep_going;
                    }
                }
                // history oracle: a seeded sample of judged, non-trivial runs is
                // re-executed later in fresh processes
                if judge && rec.status == "ran" && !hist.is_empty() && hist_samples.len() < sample_cap && crate::prng::hmix(&[seed, 0x415, specs[pos].idx]) % sample_mod == 0 {
                    hist_samples.push((specs[pos].clone(), rec.clone(), hist.to_vec()));
                }
                if rec.status != "ran" && rec.excluded_reason.starts_with("builder_") && !rec.excluded_reason.starts_with("builder_or_instrument_panic") {
                    // input builders that hang or die: bounded damage
                    *builder_hangs += 1;
                    if *builder_hangs >= 16 {
                        go_on = false;
                    }
                }
                if !judge && (rec.outcome == "timeout" || rec.outcome == "abort") {
                    *unjudged_hangs += 1;
                    if *unjudged_hangs >= 8 {
                        // classification stage only: do not burn the wall budget on hangs
                        go_on = false;
                    }
                }
                if keep {
                    kept_ref[pos] = Some(rec);
                }
                go_on
            })
        };
        self.runs_issued += stats.issued;
        self.worker_deaths += stats.worker_deaths;
        self.timeouts += stats.timeouts;
        self.hit_deadline |= stats.hit_deadline;
        kept
    }
}

pub fn check_cmd(args: CheckArgs) -> i32 {
    let t0 = Instant::now();
    let prop = args.prop.clone();
    let tier = args.tier;
    let seed = args.seed;
    println!("check {} tier={} VERIF_SEED={} workers={} hooks_compiled={}", prop, tier.name(), seed, args.workers, hooks_compiled());
    let findings = match load_findings() {
        Ok(f) => f,
        Err(e) => {
            eprintln!("harness error: {}", e);
            return EXIT_HARNESS;
        }
    };
    let corpus = match Corpus::load(4, tier == Tier::Thorough) {
        Ok(c) => c,
        Err(e) => {
            eprintln!("harness error: corpus: {}", e);
            return EXIT_HARNESS;
        }
    };
    let evidence_path = args.evidence_path.clone().unwrap_or_else(|| verif_root().join("evidence").join(format!("{}.json", prop)));
    let mut d = Driver {
        args,
        findings: findings.clone(),
        agg: Agg::new(&prop),
        known_hits: BTreeMap::new(),
        unknown: vec![],
        t0,
        runs_issued: 0,
        worker_deaths: 0,
        timeouts: 0,
        hit_deadline: false,
        plan_size: 0,
        in_census: false,
        hist_samples: vec![],
        violation_history: vec![],
        prev_idx: vec![],
        census_specs: vec![],
        explore_specs: vec![],
        hist_checked: 0,
        hist_output_differences: 0,
    };

    // 1. regression replays: every listed finding (open or fixed) first
    let mut known_lines = vec![];
    let mut replay_report = vec![];
    for f in findings.iter().filter(|f| f.property == prop) {
        let path = verif_root().join(&f.replay);
        let rp = match read_replay(&path) {
            Ok(r) => r,
            Err(e) => {
                eprintln!("harness error: known finding replay {}: {}", f.replay, e);
                return EXIT_HARNESS;
            }
        };
        let (viols, _recs) = execute_specs(&rp.specs, &prop, tier == Tier::Thorough);
        let reproduced = viols.iter().any(|v| v.class == f.class);
        replay_report.push(json!({"replay": f.replay, "status": f.status, "class": f.class, "reproduced": reproduced}));
        if reproduced {
            if f.status == "open" {
                known_lines.push(format!("KNOWN-FINDING: property={} {} [{} on tiling {} via {}; replay {}]", prop, f.what, f.class, f.tiling, f.operation, f.replay));
            } else {
                // a fixed defect came back: this is a violation
                println!("regression: fixed finding reproduces again: {} ({})", f.what, f.replay);
                println!("VIOLATION property={} replay={}", prop, path.display());
                write_evidence(&d, &evidence_path, 1, &replay_report, &[], None);
                return EXIT_VIOLATION;
            }
        }
    }
    for l in &known_lines {
        println!("{}", l);
    }

    // 2. census
    let hooks = hooks_compiled();
    let mut planner = Planner::new(seed, &prop, tier, hooks);
    planner.pre_pool = corpus.k0.iter().map(|e| e.text.clone()).collect();
    let mut census_entries: Vec<&Entry> = corpus.g.iter().collect();
    census_entries.extend(corpus.k0.iter());
    census_entries.extend(corpus.finite.iter());
    let census_specs = planner.census(&census_entries);
    d.plan_size += census_specs.len();
    d.census_specs = census_specs.clone();
    // the census is a judged control configuration for C17 (fixed keys, no
    // perturbation); for C16 it only classifies inputs
    let judge_census = prop == "C17";
    d.in_census = true;
    let census_recs = if judge_census {
        // need the records for classification as well: run unjudged copy of
        // the information through a side channel
        run_census_collect(&mut d, &census_specs)
    } else {
        d.run_stage(&census_specs, false)
    };
    d.in_census = false;
    let census: Vec<Census> = census_recs
        .iter()
        .map(|r| match r {
            Some(r) if r.status == "ran" => Census::from_record(r),
            _ => Census::default(),
        })
        .collect();
    let census_g: Vec<Census> = census[..corpus.g.len()].to_vec();

    if d.unknown.is_empty() || d.args.keep_going {
        // 3. K+ and cover counts (coordinator, builder role)
        let (kp, kp_fail) = kplus(&corpus);
        let n_kplus = kp.iter().filter(|&&b| b).count();
        let kmax = if tier == Tier::Thorough { 3 } else { 2 };
        let mut cover_bases: Vec<(&Entry, bool, usize)> = corpus.k0.iter().map(|e| (e, true, kmax)).collect();
        for (gi, e) in corpus.g.iter().enumerate() {
            // quick tier: of the 5- and 6-chamber extras the known-euclidean ones (K+) and a seeded eighth of the others get covers
            if gi >= corpus.extra_from && tier != Tier::Thorough && !kp[gi] && e.id != "J0" && e.id != "J1" && crate::prng::hmix(&[seed, 0xC0FE, gi as u64]) % 8 != 0 {
                continue;
            }
            if e.id.starts_with('J') && e.id != "J0" && e.id != "J1" {
                continue; // 8-chamber bulk: no covers
            }
            if kp[gi] || census_g[gi].interesting() {
                // the 5- to 7-chamber extras: covers with <= 2 sheets only
                cover_bases.push((e, kp[gi], if gi >= corpus.extra_from { 2 } else { kmax }));
            } else if gi < corpus.extra_from && (tier == Tier::Thorough || crate::prng::hmix(&[seed, 0xC0F2, gi as u64]) % 16 == 0) {
                // symbols the invariant filter rejects: their 2-sheeted covers must not
                // be reported euclidean either and must not panic (thorough: all of
                // G4, quick: a seeded sixteenth)
                cover_bases.push((e, false, 2));
            }
        }
        let cover_counts = CoverCounts::compute(&cover_bases);
        let sweep = crate::plan::sweep_counts(&corpus, tier);
        println!(
            "census: {} generated symbols ({} pass the invariant filter, {} reach simplify), K0 = {}, K+ = {} (instrument failures {}), cover bases = {}",
            corpus.g.len(),
            census_g.iter().filter(|c| c.interesting()).count(),
            census_g.iter().filter(|c| c.has_ptc()).count(),
            corpus.k0.len(),
            n_kplus,
            kp_fail,
            cover_counts.list.len()
        );
        // 4. exploration
        let mut specs = if prop == "C17" {
            planner.c17_stage_b(&corpus, &census_g, &kp, &cover_counts, &sweep)
        } else {
            planner.c16_stage_b(&corpus, &census_g, &kp, &cover_counts, &sweep)
        };
        if let Some(m) = d.args.max_runs {
            specs.truncate(m);
        }
        d.plan_size += specs.len();
        println!("plan: {} runs in the exploration stage", specs.len());
        d.run_stage(&specs, true);
        if d.unknown.is_empty() && !d.hit_deadline {
            history_oracle(&mut d, &specs);
        }
        d.explore_specs = specs;
    }

    // 5. verdict
    let wall = t0.elapsed().as_secs_f64();
    if let Some(v) = d.unknown.first().cloned() {
        if d.args.keep_going {
            let mut by_class: BTreeMap<String, Vec<String>> = BTreeMap::new();
            for u in &d.unknown {
                by_class.entry(u.class.clone()).or_default().push(u.group.clone());
            }
            for (c, g) in &by_class {
                println!("triage: class {} in {} groups: {:?}", c, g.len(), g.iter().take(12).collect::<Vec<_>>());
            }
        }
        println!("violation: class {} group {}: {}", v.class, v.group, v.detail);
        let path = minimise_and_write(&d, &v);
        println!("VIOLATION property={} replay={}", prop, path.display());
        write_evidence(&d, &evidence_path, d.unknown.len() as i64, &replay_report, &known_lines, Some(&path));
        println!("{} runs in {:.1} s", d.agg.evaluations, wall);
        return EXIT_VIOLATION;
    }
    write_evidence(&d, &evidence_path, 0, &replay_report, &known_lines, None);
    println!(
        "{}: held on {} simulated runs ({} judged, {} excluded) in {:.1} s; known-finding hits during exploration: {:?}{}",
        prop,
        d.agg.evaluations,
        d.agg.judged,
        d.agg.excluded.values().sum::<u64>(),
        wall,
        d.known_hits,
        if d.hit_deadline { " [wall cap reached before the plan was finished]" } else { "" }
    );
    EXIT_OK
}

/// Census for C17: judged (control configuration) and also collected.
fn note_prev(prev_idx: &mut Vec<u64>, specs: &[Spec], pos: usize, hist: &[usize]) {
    let i = specs[pos].idx as usize;
    if prev_idx.len() <= i {
        prev_idx.resize(i + 1, u64::MAX);
    }
    prev_idx[i] = hist.last().map(|&p| specs[p].idx).unwrap_or(u64::MAX);
}

/// The runs the worker process of run `idx` had executed before it, in order
/// (census or exploration stage; each stage has its own worker processes).
fn process_history_of(d: &Driver, idx: u64) -> Vec<Spec> {
    let mut chain: Vec<u64> = vec![];
    let mut cur = idx;
    while let Some(&p) = d.prev_idx.get(cur as usize) {
        if p == u64::MAX || chain.len() > 2_000_000 {
            break;
        }
        chain.push(p);
        cur = p;
    }
    chain.reverse();
    let nc = d.census_specs.len() as u64;
    chain
        .iter()
        .filter_map(|&i| if i < nc { d.census_specs.get(i as usize) } else { d.explore_specs.get((i - nc) as usize) })
        .filter(|s| true && !s.prop.is_empty())
        .cloned()
        .collect()
}

fn run_census_collect(d: &mut Driver, specs: &[Spec]) -> Vec<Option<Record>> {
    let cfg = d.pool_cfg();
    let mut kept: Vec<Option<Record>> = vec![None; specs.len()];
    let prop = d.args.prop.clone();
    let keep_going = d.args.keep_going;
    let stats = {
        let agg = &mut d.agg;
        let findings = &d.findings;
        let known_hits = &mut d.known_hits;
        let unknown = &mut d.unknown;
        let kept_ref = &mut kept;
        let prev_idx = &mut d.prev_idx;
        run_specs(specs, &cfg, move |pos, rec, hist| {
            note_prev(prev_idx, specs, pos, hist);
            let new = agg.absorb(&specs[pos], &rec, true);
            let mut go_on = true;
            for vi in new {
                let v = agg.violations[vi].clone();
                if let Some(f) = findings.iter().find(|f| matches_finding(f, &prop, &v)) {
                    *known_hits.entry(format!("{} {}", f.class, f.tiling)).or_insert(0) += 1;
                } else {
                    unknown.push(v);
                    go_on = false;
                }
            }
            kept_ref[pos] = Some(rec);
            go_on
        })
    };
    d.runs_issued += stats.issued;
    d.worker_deaths += stats.worker_deaths;
    d.timeouts += stats.timeouts;
    d.hit_deadline |= stats.hit_deadline;
    kept
}

fn minimise_and_write(d: &Driver, v: &Violation) -> PathBuf {
    let prop = d.args.prop.clone();
    let thorough = d.args.tier == Tier::Thorough;
    let cfg = PoolConfig { workers: d.args.workers, chunk: 1, run_budget: Duration::from_secs(run_budget_secs()), deadline: None, thorough, fresh_per_spec: false };
    let mut shr = Shrinker {
        cfg: &cfg,
        evaluations: 0,
        budget: if thorough { 6000 } else { 1500 },
        deadline: Instant::now() + Duration::from_secs(if thorough { 600 } else { 120 }),
    };
    let original: Vec<Spec> = v.witnesses.clone();
    let mut specs = original.clone();
    let mut class = v.class.clone();
    let mut schedule: Option<Spec> = None;
    let mut history: Vec<Spec> = vec![];
    if class.starts_with("history:") {
        // found by the history oracle: shrink the process history, not the input
        let spec = &specs[0];
        if let Some(Some(fresh)) = execute_fresh(std::slice::from_ref(spec), 1, thorough).pop() {
            history = shrink_history(d.violation_history.clone(), spec, &fresh, thorough, Instant::now() + Duration::from_secs(if thorough { 600 } else { 150 }));
        }
        return write_replay(d, v, &class, &specs, &history, &original, None, 0);
    }
    // reference records: those observed when the violation was found
    let first_recs: Vec<Record> = v.records.clone();
    let hangs = class == "timeout" || class == "abort";
    if hangs {
        // every candidate costs a full run budget: shrink only the cheap things
        shr.deadline = Instant::now() + Duration::from_secs(run_budget_secs() * 2 + 5);
    }
    if first_recs.len() == specs.len() {
        if specs.len() == 1 {
            let cl = class.clone();
            let pred = move |r: &Record| r.failures.iter().any(|(c, _)| *c == cl);
            let s = shr.shrink(&specs[0], &first_recs[0], &pred);
            if !hangs {
                let (_, recs) = execute_specs(std::slice::from_ref(&s), &prop, thorough);
                if let Some(r) = recs.first() {
                    schedule = shr.shrink_schedule(&s, r, &pred);
                }
            }
            specs[0] = s;
        } else {
            // cross-run class: shrink each witness while it keeps its outcome key
            for k in 0..specs.len() {
                let want_outcome = first_recs[k].outcome.clone();
                let want_detail = first_recs[k].detail.clone();
                let is17 = prop == "C17";
                let pred = move |r: &Record| r.outcome == want_outcome && (is17 || r.detail == want_detail);
                let s = shr.shrink(&specs[k], &first_recs[k], &pred);
                specs[k] = s;
                if k == specs.len() - 1 {
                    let (_, recs) = execute_specs(&specs[k..], &prop, thorough);
                    if let Some(r) = recs.first() {
                        schedule = shr.shrink_schedule(&specs[k], r, &pred);
                    }
                }
            }
        }
    }
    // final confirmation in fresh processes; fall back to the original witnesses
    let (viols, mut recs) = execute_specs(&specs, &prop, thorough);
    if !viols.iter().any(|x| x.class == class) {
        specs = original.clone();
        let r = execute_specs(&specs, &prop, thorough);
        recs = r.1;
        if !r.0.iter().any(|x| x.class == class) && v.records.len() == specs.len() && recs.len() == specs.len() {
            // not reproducible from the specs alone: which witness behaves
            // differently in a fresh process than it did when it was observed?
            // Re-run it after the history of the worker process it ran in
            // (census or exploration stage), last witness first.
            for k in (0..specs.len()).rev() {
                let (w, fresh, observed) = (specs[k].clone(), recs[k].clone(), v.records[k].clone());
                if property_level_difference(&observed, &fresh).is_none() {
                    continue;
                }
                let full = process_history_of(d, w.idx);
                if full.is_empty() {
                    continue;
                }
                let mut seq = full.clone();
                seq.push(w.clone());
                let after = execute_sequence(&seq, thorough).pop().flatten();
                if let Some(after) = after {
                    if property_level_difference(&after, &fresh).is_some() && property_level_difference(&after, &observed).is_none() {
                        let diff = property_level_difference(&after, &fresh).unwrap();
                        class = format!("history:{}", diff);
                        history = shrink_history(full, &w, &fresh, thorough, Instant::now() + Duration::from_secs(if thorough { 600 } else { 150 }));
                        let hv = Violation { class: class.clone(), detail: format!("{} - and the violating run is only reproducible after the history of its worker process: the result depends on call history", v.detail), group: v.group.clone(), witnesses: vec![w.clone()], records: vec![observed] };
                        return write_replay(d, &hv, &class, &[w], &history, &original, None, shr.evaluations);
                    }
                }
            }
        }
    }
    let _ = &recs;
    write_replay(d, v, &class, &specs, &history, &original, schedule, shr.evaluations)
}

#[allow(clippy::too_many_arguments)]
fn write_replay(d: &Driver, v: &Violation, class: &str, specs: &[Spec], history: &[Spec], original: &[Spec], schedule: Option<Spec>, evaluations: usize) -> PathBuf {
    let prop = d.args.prop.clone();
    let thorough = d.args.tier == Tier::Thorough;
    // the records the replay is expected to produce
    let recs: Vec<Record> = if history.is_empty() {
        execute_specs(specs, &prop, thorough).1
    } else {
        let mut seq = history.to_vec();
        seq.extend(specs.iter().cloned());
        let all = execute_sequence(&seq, thorough);
        all.into_iter().skip(history.len()).flatten().collect()
    };
    let steered = specs.iter().any(|s| !s.steer.is_empty() || s.steer_min_beyond);
    let (head, dirty) = git_head();
    let w = specs.last().unwrap();
    let body = json!({
        "format": 1,
        "property": prop,
        "class": class,
        "detail": v.detail,
        "group": v.group,
        "tiling": tiling_of(&w.base),
        "operation": w.op.name(),
        "verif_seed": d.args.seed,
        "tier": d.args.tier.name(),
        "mode": if steered { "steered" } else { "real_keys" },
        "specs": specs.iter().map(|s| s.to_json()).collect::<Vec<_>>(),
        "history": history.iter().map(|s| s.to_json()).collect::<Vec<_>>(),
        "history_note": if history.is_empty() { "none: every spec runs in a fresh worker process" } else { "run these specs first, in this order, in ONE worker process, then the specs; the violation is that the last record differs from the same spec run in a fresh process" },
        "expected": recs.iter().map(|r| json!({"outcome": r.outcome, "detail": r.detail, "out_fp": format!("{:016x}", r.out_fp), "decisions": r.decisions.len(), "failures": r.failures.iter().map(|f| f.0.clone()).collect::<Vec<_>>(), "first_bad_state": r.first_bad_state})).collect::<Vec<_>>(),
        "log_fp": format!("{:016x}", log_fingerprint(&recs)),
        "minimisation": {"evaluations": evaluations, "original_specs": original.iter().map(|s| s.to_json()).collect::<Vec<_>>()},
        "minimal_schedule": schedule.map(|s| s.to_json()),
        "original_history_length": d.violation_history.len(),
        "repo_head": head,
        "repo_dirty": dirty,
        "hooks_compiled": hooks_compiled(),
    });
    let dir = verif_root().join("replays");
    let _ = std::fs::create_dir_all(&dir);
    let safe: String = class.chars().map(|c| if c.is_ascii_alphanumeric() || c == '-' || c == '.' { c } else { '_' }).collect();
    let path = dir.join(format!("{}-{}-seed{}-{:08x}.json", prop, safe, d.args.seed, fnv64(body["specs"].to_string().as_bytes()) as u32));
    let _ = std::fs::write(&path, serde_json::to_string_pretty(&body).unwrap());
    path
}

fn write_evidence(d: &Driver, path: &Path, violations: i64, replays: &[Value], known_lines: &[String], replay_path: Option<&Path>) {
    let a = &d.agg;
    let wall = d.t0.elapsed().as_secs_f64();
    let covered: usize = a.option_coverage.len();
    let universe: usize = a.option_universe.iter().map(|&(_, _, n)| n).sum();
    let prop = &d.args.prop;
    let probes_expected: &[&str] = &[
        "simplify::move::fix_local_1_vertex",
        "simplify::move::fix_local_2_vertex",
        "simplify::move::fix_non_disk_face",
        "simplify::move::fix_folded_faces",
        "simplify::move::split_and_glue::edge_mode",
        "simplify::move::split_and_glue::face_mode",
        "simplify::cut_face",
        "simplify::cut_tile",
        "simplify::squeeze_tile_3d",
        "simplify::collapse::empty",
        "derived::canonical",
        "derived::minimal_image",
        "derived::cover",
        "fpgroups::stabilizer",
        "fpgroups::abelian_invariants",
        "fpgroups::coset_tables",
        "delaney2d::orbifold_symbol",
        "fundamental_group",
    ];
    // C16 observes simplify only; the probes outside simplify.rs belong to is_euclidean runs
    let probes_at_zero: Vec<&str> = if hooks_compiled() { probes_expected.iter().cloned().filter(|p| (prop == "C17" || p.starts_with("simplify::")) && !a.probes.contains_key(*p)).collect() } else { vec![] };
    let table: std::collections::BTreeSet<String> = std::fs::read_to_string(format!("{}/src/data/euclideanInvariants.data", repo_path()))
        .unwrap_or_default()
        .split_whitespace()
        .filter(|s| !s.is_empty() && !s.starts_with('#') && s.ends_with('/'))
        .map(|s| s.to_string())
        .collect();
    let (head, dirty) = git_head();
    let rule = "cases = simulated executions of the real library call (C17: is_euclidean(s); C16: simplify(X)) on a fresh thread whose RandomState keys, call history, input numbering/dual/cover/representation and (in steered runs) start-of-walk choices are drawn from SplitMix64(h(VERIF_SEED, property, run index)). distinct_nontrivial = number of distinct (input fingerprint, decision trace) pairs among runs that passed at least one hash-order decision with >= 2 eligible options (counted from the hook's decision log; 0 decisions or single-option decisions are trivial). Without the hook build it falls back to distinct (input fingerprint, output fingerprint) pairs of runs that reached simplify.";
    let distinct_nontrivial = if hooks_compiled() { a.nontrivial_traces.len() } else { a.deep_pairs.len() };
    let ev = json!({
        "property_id": prop,
        "tier": d.args.tier.name(),
        "seed": d.args.seed,
        "level": "exploration",
        "wall_s": wall,
        "violations": violations,
        "coverage": {
            "evaluations": a.evaluations,
            "distinct_nontrivial": distinct_nontrivial,
            "rule": rule,
            "samples": a.samples,
            "exhaustive": false,
            "runs_judged": a.judged,
            "runs_excluded_by_reason": a.excluded,
            "plan_size": d.plan_size,
            "plan_completed": !d.hit_deadline && (violations == 0),
            "runs_per_hour": if wall > 0.0 { (a.evaluations as f64 / wall * 3600.0) as u64 } else { 0 },
            "seeds": {"VERIF_SEED": d.args.seed, "run_index_range": [0, d.plan_size]},
            "simulated_time": format!("none - the code under test reads no clock; logical events: {} runs, {} hash-order decisions", a.evaluations, a.decisions_total),
            "cpu_seconds_in_runs": a.micros_total as f64 / 1e6,
            "slowest_run_ms": a.micros_max as f64 / 1e3,
            "slowest_run_phase_ms": a.run_micros_max as f64 / 1e3,
            "run_phase_budget_s": run_budget_secs(),
            "perturbations_injected": {
                "counts": a.perturb,
                "steered_runs_that_deviated_from_natural": a.steered_effective,
                "explicit_call_history_runs_by_number_of_earlier_calls": a.pre_len,
                "explicit_call_history_earlier_calls_by_kind": a.pre_kind,
                "not_present_in_code_under_test": ["message loss/reorder/duplication", "partitions", "crash/restart", "clock skew", "disk errors / short writes", "allocation failure"],
            },
            "decisions_total": a.decisions_total,
            "runs_with_decisions": a.runs_with_decisions,
            "distinct_decision_traces": distinct_nontrivial,
            "option_coverage_first_8_ordinals": {"covered": covered, "of": universe},
            "distinct_inputs": a.distinct_inputs.len(),
            "groups": a.group_count(),
            "groups_with_multiple_runs": a.groups_with_multiple_runs(),
            "distinct_outputs_per_group_histogram": a.distinct_outputs_histogram(),
            "outcomes": a.verdicts,
            "verdict_reasons": a.reasons,
            "probes": a.probes,
            "probes_at_zero": probes_at_zero,
            "inputs_by_family": a.by_family,
            "inputs_by_representation": a.by_repr,
            "operations": a.by_op,
            "largest_input_chambers": a.in_size_max,
            "space_group_table_entries_exercised_with_yes": {"seen": a.inv_seen.len(), "seen_and_in_table": a.inv_seen.iter().filter(|i| table.contains(*i)).count(), "table_entries": table.len(), "note": "orbifold invariant strings of yes-verdict runs (coverage instrument, rebuilt from public API), against the distinct entries of src/data/euclideanInvariants.data"},
            "certificates_verified": a.certificates_ok,
            "intermediate_states_checked": a.states_checked,
            "runs_with_recorded_states": a.runs_with_states,
            "distinct_intermediate_states": a.distinct_states.len(),
            "runs_with_bad_intermediate_state_by_kind_diagnostic_only": a.bad_intermediate_states,
            "inconclusive_by_kind": a.inconclusive,
            "notes": a.notes,
            "unjudged_outcome_splits": a.unjudged_outcome_splits.iter().cloned().collect::<Vec<_>>(),
            "known_finding_hits": d.known_hits,
            "known_finding_lines": known_lines,
            "regression_replays": replays,
            "history_oracle": {"runs_re_executed_in_fresh_processes": d.hist_checked, "property_level_differences": 0, "runs_whose_raw_output_differed_only": d.hist_output_differences, "note": "a record must be a function of its spec alone: a seeded sample of runs is executed again, each in a fresh worker process, and compared with what the long-lived worker produced after its history; a property-level difference is a violation (class history:...) and ends the check, so this count is 0 whenever the check passes"},
            "worker_deaths": d.worker_deaths,
            "timeouts": d.timeouts,
            "entropy_call_anomalies": a.entropy_anomalies,
            "steering": {"hooks_compiled": hooks_compiled(), "stale_hook_runs": a.stale_hook_runs},
            "components": {
                "real": ["rust_dsymbols (all library code, built from /repo's working tree)", "std HashSet/HashMap/SipHash-1-3/hashbrown", "once_cell"],
                "stub": ["OS entropy source (interposed getrandom) - every byte sequence it returns is one the kernel could return"],
                "steered_only": ["start-of-walk choice in simplify::network_cut (cfg rust_dsymbols_verif), restricted to eligible elements"],
            },
            "violation_replay": replay_path.map(|p| p.display().to_string()),
            "first_violations": d.unknown.iter().take(5).map(|v| json!({"class": v.class, "group": v.group, "detail": v.detail})).collect::<Vec<_>>(),
            "repo_head": head,
            "repo_dirty": dirty,
            "build_profile": "release, opt-level 3, overflow-checks on, debug-assertions on, panic=unwind",
        },
        "assumptions": [
            "input builders pseudo_toroidal_cover / covers / finite_universal_cover are trusted only as builders: their outputs are precondition-checked by harness code, failures exclude the input",
            "canonical(minimal_image(.)) is the observable named by the property (O16.5); subgroup counts of index <= 4 are computed by the harness's own enumeration on the presentation returned by the repository's fundamental_group (C09; cross-checked through H1 against an independent textbook presentation + Smith normal form); the repository's coset_tables is only a cross-check whose disagreements are counted under notes",
            "std resolves RandomState keys through getrandom(2) (verified by a start-up self-test on every run; failure is exit 2)",
            "sampling, not enumeration: a clean batch is evidence, not proof",
        ],
    });
    if let Some(dir) = path.parent() {
        let _ = std::fs::create_dir_all(dir);
    }
    let _ = std::fs::write(path, serde_json::to_string_pretty(&ev).unwrap());
}
