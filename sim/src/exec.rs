//! Worker side: execute one `Spec` and produce its `Record`.
//!
//! Thread discipline (DESIGN.md 3.2): the *builder* (this thread) parses and
//! transforms inputs, checks preconditions and evaluates oracles; the *run
//! thread* is created fresh for every run with the run's hash keys and
//! executes nothing but library calls of the scenario. The two never run
//! concurrently.

use std::collections::BTreeMap;

use serde_json::{json, Value};

use rust_dsymbols::covers::{covers, finite_universal_cover};
use rust_dsymbols::delaney2d;
use rust_dsymbols::delaney3d::{orbifold_graph, pseudo_toroidal_cover};
use rust_dsymbols::derived::{canonical, minimal_image, subsymbol};
use rust_dsymbols::dsets::{DSet, SimpleDSet};
use rust_dsymbols::dsyms::PartialDSym;
use rust_dsymbols::euclidicity::{is_euclidean, Euclidean};
use rust_dsymbols::fpgroups::cosets::coset_tables;
use rust_dsymbols::fpgroups::invariants::abelian_invariants;
use rust_dsymbols::fundamental_group::fundamental_group;
use rust_dsymbols::simplify::simplify;

use crate::dsx::{self, Sym};
use crate::entropy::on_fresh_thread;
use crate::homology;
use crate::prng::fnv64;
use crate::spec::{Expect, Op, Repr, Spec, Xf};

pub const TINY_WARMUP: &str = "<1.1:1 3:1,1,1,1:3,3,3>";

#[derive(Clone, Debug, Default)]
pub struct Record {
    pub idx: u64,
    pub group: String,
    /// "ran" | "excluded"
    pub status: String,
    pub excluded_reason: String,
    /// C17: yes|no|maybe|panic ; C16: none|some|panic
    pub outcome: String,
    /// C17: reason text; C16: canonical minimal image of the result (or note)
    pub detail: String,
    pub out_fp: u64,
    pub in_size: usize,
    /// size of the symbol after the builder-side transformations
    pub sym_size: usize,
    pub out_size: usize,
    pub out_connected: bool,
    pub input_fp: u64,
    /// (n_options, taken, natural) per decision; empty in cfg-off builds
    pub decisions: Vec<(usize, usize, usize)>,
    pub stale_hook: bool,
    pub probes: Vec<(String, u64)>,
    /// per-run oracle failures: (class, detail)
    pub failures: Vec<(String, String)>,
    pub inconclusive: Vec<String>,
    pub notes: Vec<String>,
    pub entropy_calls: u64,
    /// injected aborts that actually fired in earlier calls of this run
    pub aborts_fired: u64,
    pub states_checked: usize,
    /// fingerprints of the recorded intermediate D-sets (coverage measure)
    pub state_fps: Vec<u64>,
    pub first_bad_state: Option<String>,
    pub micros: u64,
    /// wall time of the run-thread phase only (what the run budget is about)
    pub run_micros: u64,
}

impl Record {
    /// The deterministic part (no timing) - this is "the event log" of a run.
    pub fn log_json(&self) -> Value {
        json!({
            "idx": self.idx,
            "group": self.group,
            "status": self.status,
            "excluded_reason": self.excluded_reason,
            "outcome": self.outcome,
            "detail": self.detail,
            "out_fp": format!("{:016x}", self.out_fp),
            "in_size": self.in_size,
            "sym_size": self.sym_size,
            "out_size": self.out_size,
            "out_connected": self.out_connected,
            "input_fp": format!("{:016x}", self.input_fp),
            "decisions": self.decisions.iter().map(|&(n, t, nat)| vec![n, t, nat]).collect::<Vec<_>>(),
            "stale_hook": self.stale_hook,
            "probes": self.probes.iter().map(|(k, v)| json!([k, v])).collect::<Vec<_>>(),
            "failures": self.failures.iter().map(|(k, v)| json!([k, v])).collect::<Vec<_>>(),
            "inconclusive": self.inconclusive,
            "notes": self.notes,
            "entropy_calls": self.entropy_calls,
            "aborts_fired": self.aborts_fired,
            "states_checked": self.states_checked,
            "state_fps": self.state_fps.iter().map(|f| format!("{:016x}", f)).collect::<Vec<_>>(),
            "first_bad_state": self.first_bad_state,
        })
    }

    pub fn to_json(&self) -> Value {
        let mut v = self.log_json();
        v["micros"] = json!(self.micros);
        v["run_micros"] = json!(self.run_micros);
        v
    }

    pub fn from_json(v: &Value) -> Record {
        let hexf = |x: &Value| u64::from_str_radix(x.as_str().unwrap_or("0"), 16).unwrap_or(0);
        let strs = |x: &Value| -> Vec<String> {
            x.as_array().map(|a| a.iter().map(|s| s.as_str().unwrap_or("").to_string()).collect()).unwrap_or_default()
        };
        Record {
            idx: v["idx"].as_u64().unwrap_or(0),
            group: v["group"].as_str().unwrap_or("").to_string(),
            status: v["status"].as_str().unwrap_or("").to_string(),
            excluded_reason: v["excluded_reason"].as_str().unwrap_or("").to_string(),
            outcome: v["outcome"].as_str().unwrap_or("").to_string(),
            detail: v["detail"].as_str().unwrap_or("").to_string(),
            out_fp: hexf(&v["out_fp"]),
            in_size: v["in_size"].as_u64().unwrap_or(0) as usize,
            sym_size: v["sym_size"].as_u64().unwrap_or(0) as usize,
            out_size: v["out_size"].as_u64().unwrap_or(0) as usize,
            out_connected: v["out_connected"].as_bool().unwrap_or(false),
            input_fp: hexf(&v["input_fp"]),
            decisions: v["decisions"]
                .as_array()
                .map(|a| {
                    a.iter()
                        .map(|d| {
                            (
                                d[0].as_u64().unwrap_or(0) as usize,
                                d[1].as_u64().unwrap_or(0) as usize,
                                d[2].as_u64().unwrap_or(0) as usize,
                            )
                        })
                        .collect()
                })
                .unwrap_or_default(),
            stale_hook: v["stale_hook"].as_bool().unwrap_or(false),
            probes: v["probes"]
                .as_array()
                .map(|a| a.iter().map(|p| (p[0].as_str().unwrap_or("").to_string(), p[1].as_u64().unwrap_or(0))).collect())
                .unwrap_or_default(),
            failures: v["failures"]
                .as_array()
                .map(|a| a.iter().map(|p| (p[0].as_str().unwrap_or("").to_string(), p[1].as_str().unwrap_or("").to_string())).collect())
                .unwrap_or_default(),
            inconclusive: strs(&v["inconclusive"]),
            notes: strs(&v["notes"]),
            entropy_calls: v["entropy_calls"].as_u64().unwrap_or(0),
            aborts_fired: v["aborts_fired"].as_u64().unwrap_or(0),
            states_checked: v["states_checked"].as_u64().unwrap_or(0) as usize,
            state_fps: v["state_fps"].as_array().map(|a| a.iter().map(|x| u64::from_str_radix(x.as_str().unwrap_or("0"), 16).unwrap_or(0)).collect()).unwrap_or_default(),
            first_bad_state: v["first_bad_state"].as_str().map(|s| s.to_string()),
            micros: v["micros"].as_u64().unwrap_or(0),
            run_micros: v["run_micros"].as_u64().unwrap_or(0),
        }
    }

    pub fn decision_trace_fp(&self) -> u64 {
        let mut bytes = vec![];
        for &(n, t, _) in &self.decisions {
            bytes.extend_from_slice(&(n as u32).to_le_bytes());
            bytes.extend_from_slice(&(t as u32).to_le_bytes());
        }
        fnv64(&bytes)
    }
}

/// What came back from the run thread.
struct RunOut<T> {
    value: T,
    decisions: Vec<(usize, usize, usize)>,
    stale: bool,
    probes: Vec<(String, u64)>,
    states: Vec<Sym>,
    state_tags: Vec<String>,
}

#[cfg(rust_dsymbols_verif)]
fn hooks_begin(spec_steer: &[(usize, usize)], min_beyond: bool, rec: bool) {
    use rust_dsymbols::verif_hooks::{begin, Policy};
    let policy = if spec_steer.is_empty() && !min_beyond {
        None
    } else {
        let len = spec_steer.iter().map(|&(i, _)| i + 1).max().unwrap_or(0);
        let mut picks = vec![None; len];
        for &(i, o) in spec_steer {
            picks[i] = Some(o);
        }
        Some(Policy { picks, min_beyond })
    };
    begin(policy, rec);
}

#[cfg(rust_dsymbols_verif)]
fn hooks_end<T>(value: T) -> RunOut<T> {
    let obs = rust_dsymbols::verif_hooks::end();
    let stale = obs.trace.iter().any(|d| d.site == "STALE");
    let decisions = obs.trace.iter().filter(|d| d.site != "STALE").map(|d| (d.n_options, d.taken, d.natural)).collect();
    let probes = obs.probes.iter().map(|(k, v)| (k.to_string(), *v)).collect();
    let mut states = vec![];
    let mut state_tags = vec![];
    for st in obs.states {
        let n = st.size;
        let mut op = vec![vec![0usize; n + 1]; st.dim + 1];
        for i in 0..=st.dim {
            for d in 1..=n {
                op[i][d] = st.ops[i * n + d - 1];
            }
        }
        let mut v = vec![vec![1usize; n + 1]; st.dim];
        for row in v.iter_mut() {
            row[0] = 0;
        }
        states.push(Sym { n, dim: st.dim, op, v });
        state_tags.push(st.tag.to_string());
    }
    RunOut { value, decisions, stale, probes, states, state_tags }
}

#[cfg(not(rust_dsymbols_verif))]
fn hooks_begin(_spec_steer: &[(usize, usize)], _min_beyond: bool, _rec: bool) {}

#[cfg(not(rust_dsymbols_verif))]
fn hooks_end<T>(value: T) -> RunOut<T> {
    RunOut { value, decisions: vec![], stale: false, probes: vec![], states: vec![], state_tags: vec![] }
}

/// A prepared earlier call (input built on the builder thread).
pub enum PreInput {
    Euclid(PartialDSym),
    Simplify(PartialDSym),
    /// other public functions of the library on one symbol; the flag says
    /// whether the expensive cover builders are included (corpus literals only)
    Battery(PartialDSym, bool),
}

/// Injected aborts that fired in this worker process (read by the builder
/// thread before and after the run thread; runs are strictly sequential).
static ABORTS_FIRED: std::sync::atomic::AtomicU64 = std::sync::atomic::AtomicU64::new(0);

#[cfg(rust_dsymbols_verif)]
fn arm(abort_at: Option<u64>) {
    if let Some(n) = abort_at {
        rust_dsymbols::verif_hooks::begin(None, false);
        rust_dsymbols::verif_hooks::arm_abort(n);
    }
}

#[cfg(rust_dsymbols_verif)]
fn disarm(abort_at: Option<u64>) {
    if abort_at.is_some() {
        let _ = rust_dsymbols::verif_hooks::end();
    }
}

#[cfg(not(rust_dsymbols_verif))]
fn arm(_abort_at: Option<u64>) {}

#[cfg(not(rust_dsymbols_verif))]
fn disarm(_abort_at: Option<u64>) {}

/// Execute the explicit call history on the current (run) thread. An earlier
/// call with `abort_at` unwinds at that hook event (fault injection); like
/// any panic of an earlier call it is caught here, as a caller would.
fn run_pre(pre: &[(PreInput, Option<u64>)]) {
    for (p, abort_at) in pre {
        arm(*abort_at);
        let r = std::panic::catch_unwind(std::panic::AssertUnwindSafe(|| match p {
            PreInput::Euclid(s) => {
                let _ = is_euclidean(s);
            }
            PreInput::Simplify(d) => {
                let _ = simplify(d);
            }
            PreInput::Battery(s, with_covers) => battery(s, *with_covers),
        }));
        disarm(*abort_at);
        if let Err(e) = r {
            let msg = e.downcast_ref::<String>().cloned().or_else(|| e.downcast_ref::<&str>().map(|s| s.to_string())).unwrap_or_default();
            if msg.contains("injected abort") {
                ABORTS_FIRED.fetch_add(1, std::sync::atomic::Ordering::SeqCst);
            }
        }
    }
}

/// Earlier calls of OTHER public functions (results ignored): whatever state
/// they might leave behind on the thread or in the process is part of the
/// call history of the operation under test.
fn battery(s: &PartialDSym, with_covers: bool) {
    fn quiet<F: FnOnce()>(f: F) {
        let _ = std::panic::catch_unwind(std::panic::AssertUnwindSafe(f));
    }
    quiet(|| {
        let g = fundamental_group(s);
        let _ = g.is_free();
        let _ = abelian_invariants(g.nr_generators(), &g.relators);
    });
    quiet(|| {
        let _ = orbifold_graph(s);
    });
    quiet(|| {
        let _ = rust_dsymbols::derived::oriented_cover(s);
    });
    quiet(|| {
        let _ = canonical(s);
    });
    quiet(|| {
        let _ = minimal_image(s);
    });
    quiet(|| {
        let _ = rust_dsymbols::derived::dual(s);
    });
    if with_covers {
        quiet(|| {
            let _ = covers(s, 2);
        });
        quiet(|| {
            let _ = pseudo_toroidal_cover(s);
        });
    }
}

pub fn hooks_compiled() -> bool {
    cfg!(rust_dsymbols_verif)
}

#[derive(Clone)]
struct InputInvariants {
    h1: Result<Vec<u64>, String>,
    idx3: usize,
    idx4: Option<usize>,
}

pub struct Executor {
    /// called right before the run thread is started (the worker tells the
    /// coordinator that the builder phase of this spec is over)
    pub on_run_phase: Option<Box<dyn FnMut(bool)>>,
    covers_cache: BTreeMap<(String, usize), Vec<Option<Sym>>>,
    ptc_cache: BTreeMap<String, Option<Sym>>,
    fuc_cache: BTreeMap<String, Sym>,
    precond_cache: BTreeMap<String, Result<(), String>>,
    cert_cache: BTreeMap<String, Result<(), (String, String)>>,
    inv_cache: BTreeMap<String, InputInvariants>,
    torus_cache: BTreeMap<String, Result<(), String>>,
    pub thorough: bool,
}

fn sorted_invariants(v: &[usize]) -> Vec<u64> {
    let mut nz: Vec<u64> = v.iter().filter(|&&x| x != 0).map(|&x| x as u64).collect();
    nz.sort();
    let zeros = v.iter().filter(|&&x| x == 0).count();
    nz.extend(std::iter::repeat(0).take(zeros));
    nz
}

thread_local! {
    /// how often the repository's coset_tables disagreed with the harness's own
    /// low-index count on the same presentation (reported, never an alarm)
    static COSET_DISAGREEMENTS: std::cell::Cell<u64> = const { std::cell::Cell::new(0) };
}

pub fn take_coset_disagreements() -> u64 {
    COSET_DISAGREEMENTS.with(|c| c.replace(0))
}

/// Number of conjugacy classes of subgroups of index <= k of the orbifold
/// fundamental group. The presentation comes from the repository's
/// `fundamental_group` (trusted base C09, cross-checked through H1); the
/// count is the harness's own (lowindex.rs). The repository's `coset_tables`
/// is only consulted as a cross-check and as a fallback when the own
/// enumeration exceeds its node budget.
fn class_count(ds: &PartialDSym, k: usize, cap: usize) -> usize {
    let fg = fundamental_group(ds);
    let rels: Vec<Vec<isize>> = fg.relators.iter().map(|w| w.iter().cloned().collect()).collect();
    let repo = coset_tables(fg.nr_generators(), &fg.relators, k).take(cap).count();
    match crate::lowindex::class_count_upto(fg.nr_generators(), &rels, k.min(4), 30_000_000) {
        Some(own) if k <= 4 => {
            if own.min(cap) != repo {
                COSET_DISAGREEMENTS.with(|c| c.set(c.get() + 1));
            }
            own.min(cap)
        }
        _ => repo,
    }
}

/// The space-group invariant table, read from the repository's data file
/// (coverage / classification instrument only).
pub fn invariant_table() -> &'static std::collections::BTreeSet<String> {
    static TABLE: std::sync::OnceLock<std::collections::BTreeSet<String>> = std::sync::OnceLock::new();
    TABLE.get_or_init(|| {
        std::fs::read_to_string(format!("{}/src/data/euclideanInvariants.data", crate::check::repo_path()))
            .unwrap_or_default()
            .split_whitespace()
            .filter(|s| !s.starts_with('#') && s.ends_with('/'))
            .map(|s| s.to_string())
            .collect()
    })
}

/// The lookup key of `is_euclidean` (euclidicity::orbifold_invariant is
/// private): same recipe, public API.
pub fn orbifold_invariant_string(ds: &PartialDSym) -> String {
    use rust_dsymbols::delaney3d::orbifold_graph;
    let (labels, edges) = orbifold_graph(ds);
    let fg = fundamental_group(ds);
    let invars = abelian_invariants(fg.nr_generators(), &fg.relators);
    let mut parts = vec![labels.len().to_string()];
    parts.extend(labels);
    parts.push(if ds.is_oriented() { "2".to_string() } else if ds.is_weakly_oriented() { "1".to_string() } else { "0".to_string() });
    parts.push(edges.len().to_string());
    parts.push(invars.len().to_string());
    parts.extend(invars.iter().map(|n| n.to_string()));
    parts.push(String::new());
    parts.join("/")
}

fn repo_h1(ds: &PartialDSym) -> Vec<u64> {
    let fg = fundamental_group(ds);
    sorted_invariants(&abelian_invariants(fg.nr_generators(), &fg.relators))
}

impl Executor {
    pub fn new(thorough: bool) -> Executor {
        Executor {
            on_run_phase: None,
            covers_cache: BTreeMap::new(),
            ptc_cache: BTreeMap::new(),
            fuc_cache: BTreeMap::new(),
            precond_cache: BTreeMap::new(),
            cert_cache: BTreeMap::new(),
            inv_cache: BTreeMap::new(),
            torus_cache: BTreeMap::new(),
            thorough,
        }
    }

    fn trim(&mut self) {
        if self.covers_cache.len() > 64 {
            self.covers_cache.clear();
        }
        if self.ptc_cache.len() > 64 {
            self.ptc_cache.clear();
        }
        if self.fuc_cache.len() > 16 {
            self.fuc_cache.clear();
        }
        if self.precond_cache.len() > 4096 {
            self.precond_cache.clear();
        }
        if self.cert_cache.len() > 4096 {
            self.cert_cache.clear();
        }
        if self.inv_cache.len() > 64 {
            self.inv_cache.clear();
        }
        if self.torus_cache.len() > 256 {
            self.torus_cache.clear();
        }
    }

    /// Apply the builder-side transformation list to the base symbol.
    fn build_input(&mut self, base: &str, xf: &[Xf]) -> Result<Sym, String> {
        let mut s = Sym::parse(base).map_err(|e| format!("corpus text does not parse: {}", e))?;
        s.validate()?;
        for x in xf {
            s = match x {
                Xf::Cover { k, j } => {
                    let key = (s.to_text(), *k);
                    if !self.covers_cache.contains_key(&key) {
                        let list = covers(&s.to_partial(), *k);
                        let mut out = vec![];
                        for c in list.iter() {
                            // builder output is verified: a wrong cover is an
                            // excluded input, never an alarm for C16/C17
                            let ok = Sym::from_dsym(c).ok().filter(|cs| {
                                cs.validate().is_ok() && cs.is_connected() && dsx::covering_degree(cs, &s).is_some()
                            });
                            out.push(ok);
                        }
                        self.covers_cache.insert(key.clone(), out);
                    }
                    let list = &self.covers_cache[&key];
                    match list.get(*j) {
                        None => return Err(format!("cover index {} out of range ({} covers)", j, list.len())),
                        Some(None) => return Err("cover builder output is not a covering".into()),
                        Some(Some(c)) => c.clone(),
                    }
                }
                Xf::SubCover(word) => {
                    let w = rust_dsymbols::fpgroups::free_words::FreeWord::from(word.clone());
                    let c = rust_dsymbols::covers::subgroup_cover(&s.to_partial(), &vec![w]);
                    let cs = Sym::from_dsym(&c)?;
                    if cs.validate().is_err() || !cs.is_connected() || dsx::covering_degree(&cs, &s).is_none() {
                        return Err("subgroup cover builder output is not a covering".into());
                    }
                    cs
                }
                other => other.apply_simple(&s)?,
            };
        }
        Ok(s)
    }

    /// Precondition of C16/C17 on a 3D symbol, by harness code, cross-checked
    /// with the repository's own spherical test (disagreement => excluded).
    fn precondition(&mut self, s: &Sym) -> Result<(), String> {
        let key = s.to_text();
        if let Some(r) = self.precond_cache.get(&key) {
            return r.clone();
        }
        let r = (|| {
            if s.dim != 3 {
                return Err("not 3-dimensional".to_string());
            }
            s.validate()?;
            if !s.is_connected() {
                return Err("not connected".into());
            }
            if !s.crystallographic() {
                return Err("violates crystallographic restriction".into());
            }
            let own = dsx::tiles_and_vertex_figures_spherical(s);
            let ds = s.to_partial();
            let mut repo = true;
            for idcs in [[0usize, 1, 2], [1, 2, 3]] {
                for d in ds.orbit_reps(idcs, 1..=ds.size()) {
                    if !delaney2d::is_spherical(&subsymbol(&ds, idcs, d)) {
                        repo = false;
                    }
                }
            }
            if own != repo {
                return Err("precondition_disagreement".into());
            }
            if !own {
                return Err("tiles or vertex figures not spherical".into());
            }
            Ok(())
        })();
        self.precond_cache.insert(key, r.clone());
        r
    }

    fn ptc(&mut self, s: &Sym) -> Option<Sym> {
        let key = s.to_text();
        if !self.ptc_cache.contains_key(&key) {
            let c = pseudo_toroidal_cover(&s.to_partial()).and_then(|c| Sym::from_dsym(&c).ok());
            self.ptc_cache.insert(key.clone(), c);
        }
        self.ptc_cache[&key].clone()
    }

    fn build_pre(&mut self, spec: &Spec) -> Vec<(PreInput, Option<u64>)> {
        let mut out = vec![];
        for p in &spec.pre {
            let s = match Sym::parse(&p.base) {
                Ok(s) if s.validate().is_ok() => {
                    let s = if p.dual { s.dual() } else { s };
                    match p.shuffle {
                        Some(seed) => s.shuffled(seed),
                        None => s,
                    }
                }
                _ => continue,
            };
            match p.op {
                Op::IsEuclidean => out.push((PreInput::Euclid(s.to_partial()), p.abort_at)),
                Op::SimplifyPtc => {
                    if let Some(c) = self.ptc(&s) {
                        out.push((PreInput::Simplify(c.to_partial()), p.abort_at));
                    }
                }
                // the cover builders enumerate subgroups of index up to 48 or
                // more: only for symbols that pass the precondition and are
                // small (the planner draws battery symbols from the literals)
                Op::Battery => {
                    let ok = s.n <= 24 && self.precondition(&s).is_ok();
                    out.push((PreInput::Battery(s.to_partial(), ok), None));
                }
                _ => out.push((PreInput::Simplify(s.to_partial()), p.abort_at)),
            }
        }
        out
    }

    pub fn show_input(&mut self, spec: &Spec) -> Result<String, String> {
        Ok(self.build_input(&spec.base, &spec.xf)?.to_text())
    }

    pub fn run(&mut self, spec: &Spec) -> Record {
        self.trim();
        let t0 = std::time::Instant::now();
        let mut rec = Record { idx: spec.idx, group: spec.group.clone(), status: "ran".into(), ..Default::default() };
        // a panic on the builder thread (input builders, instruments) is not
        // a verdict about the operation under test: the run is excluded and
        // counted. Panics of the operation itself are caught on the run thread.
        let r = std::panic::catch_unwind(std::panic::AssertUnwindSafe(|| match spec.op {
            Op::IsEuclidean => self.run_c17(spec, &mut rec),
            Op::Battery => Err("battery_is_an_earlier_call_only".to_string()),
            _ => self.run_c16(spec, &mut rec),
        }));
        match r {
            Ok(Ok(())) => {}
            Ok(Err(reason)) => {
                rec.status = "excluded".into();
                rec.excluded_reason = reason;
            }
            Err(_) => {
                rec.status = "excluded".into();
                rec.excluded_reason = "builder_or_instrument_panic".into();
                rec.failures.clear();
            }
        }
        let dis = take_coset_disagreements();
        if dis > 0 {
            rec.notes.push("instrument_disagreement:repository coset_tables vs own low-index count".into());
        }
        rec.micros = t0.elapsed().as_micros() as u64;
        rec
    }

    fn run_c17(&mut self, spec: &Spec, rec: &mut Record) -> Result<(), String> {
        let s = self.build_input(&spec.base, &spec.xf)?;
        self.precondition(&s)?;
        rec.in_size = s.n;
        rec.sym_size = s.n;
        rec.input_fp = fnv64(s.to_text().as_bytes());
        let hist = spec.hist;
        let warm = Sym::parse(TINY_WARMUP).unwrap().to_partial();
        let steer = spec.steer.clone();
        let (minb, recs) = (spec.steer_min_beyond, spec.rec_states);
        let pre = std::sync::Arc::new(self.build_pre(spec));

        fn verdict(e: Euclidean) -> (String, String) {
            match e {
                Euclidean::Yes => ("yes".into(), String::new()),
                Euclidean::No(r) => ("no".into(), r),
                Euclidean::Maybe(r, _) => ("maybe".into(), r),
            }
        }

        let aborts_before = ABORTS_FIRED.load(std::sync::atomic::Ordering::SeqCst);
        let t_run = std::time::Instant::now();
        if let Some(f) = self.on_run_phase.as_mut() {
            f(true);
        }
        let out = match spec.repr {
            Repr::SimpleDSym => {
                let ds = s.to_simple();
                let pre2 = pre.clone();
                on_fresh_thread(spec.k0, spec.k1, move || {
                    for _ in 0..hist {
                        let _ = is_euclidean(&warm);
                    }
                    run_pre(&pre2);
                    hooks_begin(&steer, minb, recs);
                    let v = std::panic::catch_unwind(std::panic::AssertUnwindSafe(|| verdict(is_euclidean(&ds))));
                    let out = hooks_end(());
                    match v {
                        Ok(v) => RunOut { value: v, decisions: out.decisions, stale: out.stale, probes: out.probes, states: out.states, state_tags: out.state_tags },
                        Err(p) => std::panic::resume_unwind(p),
                    }
                })
            }
            _ => {
                let ds = s.to_partial();
                let pre2 = pre.clone();
                on_fresh_thread(spec.k0, spec.k1, move || {
                    for _ in 0..hist {
                        let _ = is_euclidean(&warm);
                    }
                    run_pre(&pre2);
                    hooks_begin(&steer, minb, recs);
                    let v = std::panic::catch_unwind(std::panic::AssertUnwindSafe(|| verdict(is_euclidean(&ds))));
                    let out = hooks_end(());
                    match v {
                        Ok(v) => RunOut { value: v, decisions: out.decisions, stale: out.stale, probes: out.probes, states: out.states, state_tags: out.state_tags },
                        Err(p) => std::panic::resume_unwind(p),
                    }
                })
            }
        };
        rec.run_micros = t_run.elapsed().as_micros() as u64;
        if let Some(f) = self.on_run_phase.as_mut() {
            f(false);
        }
        rec.entropy_calls = out.entropy_calls;
        rec.aborts_fired = ABORTS_FIRED.load(std::sync::atomic::Ordering::SeqCst) - aborts_before;
        match out.result {
            Err(msg) => {
                rec.outcome = "panic".into();
                rec.detail = msg.clone();
                rec.out_fp = fnv64(format!("panic:{}", msg).as_bytes());
                rec.failures.push((format!("panic@{}", panic_location(&msg)), msg));
            }
            Ok(ro) => {
                let (class, reason) = ro.value;
                rec.decisions = ro.decisions;
                rec.stale_hook = ro.stale;
                rec.probes = ro.probes;
                rec.out_fp = fnv64(format!("{}:{}", class, reason).as_bytes());
                if spec.known_euclidean && class != "yes" {
                    rec.failures.push((format!("O17.5:known-euclidean-got-{}", class), reason.clone()));
                }
                if spec.classify {
                    let ds = s.to_partial();
                    let inv = std::panic::catch_unwind(std::panic::AssertUnwindSafe(|| orbifold_invariant_string(&ds)));
                    if let Ok(inv) = inv {
                        rec.notes.push(if invariant_table().contains(&inv) { "filter:pass".into() } else { "filter:fail".into() });
                    }
                }
                if class == "yes" && spec.want_inv {
                    // coverage instrument only (never an oracle): the invariant
                    // string is_euclidean looked up, rebuilt from public API
                    let ds = s.to_partial();
                    let inv = std::panic::catch_unwind(std::panic::AssertUnwindSafe(|| orbifold_invariant_string(&ds)));
                    if let Ok(inv) = inv {
                        rec.notes.push(format!("inv:{}", inv));
                    }
                }
                if class == "yes" && spec.deep {
                    match self.certificate(&s) {
                        Ok(()) => rec.notes.push("certificate_ok".into()),
                        Err((class, detail)) if class == "inconclusive" => rec.inconclusive.push(detail),
                        Err((class, detail)) => rec.failures.push((class, detail)),
                    }
                }
                rec.outcome = class;
                rec.detail = reason;
            }
        }
        Ok(())
    }

    /// O17.4: the yes-certificate, verified with harness instruments.
    fn certificate(&mut self, s: &Sym) -> Result<(), (String, String)> {
        let key = s.to_text();
        if let Some(r) = self.cert_cache.get(&key) {
            return r.clone();
        }
        let thorough = self.thorough;
        let r = (|| {
            let fail = |w: &str, d: String| Err((format!("O17.4:{}", w), d));
            let c = match pseudo_toroidal_cover(&s.to_partial()) {
                None => return fail("no-cover", "yes verdict but pseudo_toroidal_cover is None".into()),
                Some(c) => c,
            };
            let cs = match Sym::from_dsym(&c) {
                Ok(cs) => cs,
                Err(e) => return fail("cover-invalid", e),
            };
            if let Err(e) = cs.validate() {
                return fail("cover-invalid", e);
            }
            if !cs.is_connected() {
                return fail("cover-disconnected", String::new());
            }
            if !cs.all_v_one() {
                return fail("cover-branched", String::new());
            }
            if !cs.is_oriented() {
                return fail("cover-not-oriented", String::new());
            }
            if dsx::covering_degree(&cs, s).is_none() {
                return fail("not-a-covering", format!("cover of size {} over symbol of size {}", cs.n, s.n));
            }
            let h = match homology::h1(&cs) {
                Ok(h) => h,
                Err(e) => return Err(("inconclusive".into(), format!("own H1 failed: {}", e))),
            };
            if h != vec![0, 0, 0] {
                return fail("h1", format!("H1 of the cover has invariants {:?}, expected [0,0,0]", h));
            }
            let n3 = class_count(&c, 3, 22);
            if n3 != 21 {
                return fail("index3-count", format!("{} classes of subgroups of index <= 3, expected 21", n3));
            }
            if thorough {
                let n4 = class_count(&c, 4, 57);
                if n4 != 56 {
                    return fail("index4-count", format!("{} classes of subgroups of index <= 4, expected 56", n4));
                }
            }
            Ok(())
        })();
        self.cert_cache.insert(key, r.clone());
        r
    }

    fn input_invariants(&mut self, key: &str, x: &Sym, want4: bool) -> InputInvariants {
        if let Some(v) = self.inv_cache.get(key) {
            if !want4 || v.idx4.is_some() {
                return v.clone();
            }
        }
        let ds = x.to_partial();
        let inv = InputInvariants {
            h1: homology::h1(x),
            idx3: class_count(&ds, 3, 1000),
            idx4: if want4 { Some(class_count(&ds, 4, 1000)) } else { None },
        };
        self.inv_cache.insert(key.to_string(), inv.clone());
        inv
    }

    fn run_c16(&mut self, spec: &Spec, rec: &mut Record) -> Result<(), String> {
        let s = self.build_input(&spec.base, &spec.xf)?;
        rec.sym_size = s.n;
        let x0: Sym = match spec.op {
            Op::SimplifyPtc => {
                self.precondition(&s)?;
                match self.ptc(&s) {
                    None => return Err("no_pseudo_toroidal_cover".into()),
                    Some(c) => c,
                }
            }
            Op::SimplifyFuc => {
                self.precondition(&s)?;
                let key = s.to_text();
                if !self.fuc_cache.contains_key(&key) {
                    let c = finite_universal_cover(&s.to_partial());
                    let cs = Sym::from_dsym(&c)?;
                    self.fuc_cache.insert(key.clone(), cs);
                }
                self.fuc_cache[&key].clone()
            }
            Op::SimplifySelf => s.clone(),
            Op::IsEuclidean | Op::Battery => unreachable!(),
        };
        let inv_key = x0.to_text();
        if spec.expect == Expect::Torus {
            // "the input is a pseudo-toroidal cover of a known-euclidean
            // symbol" is verified, not assumed: a branch-free manifold
            // covering of s with H1 = Z^3 is a flat manifold with first Betti
            // number 3, hence the 3-torus. A builder that hands over anything
            // else yields an excluded input, never a C16 alarm.
            if !self.torus_cache.contains_key(&inv_key) {
                let r = (|| {
                    dsx::manifold_check(&x0).map_err(|e| format!("not a manifold: {}", e))?;
                    if !x0.is_connected() {
                        return Err("not connected".to_string());
                    }
                    // what must it cover? the base symbol - or, for a manifold given
                    // directly (one-cube torus), the cubic tiling itself
                    let target = if spec.op == Op::SimplifySelf { Sym::parse(crate::plan::CUBE).unwrap() } else { s.clone() };
                    if dsx::covering_degree(&x0, &target).is_none() {
                        return Err("not a covering of the base symbol".to_string());
                    }
                    match homology::h1(&x0) {
                        Ok(h) if h == vec![0, 0, 0] => Ok(()),
                        Ok(h) => Err(format!("H1 invariants {:?}", h)),
                        Err(e) => Err(format!("own H1 failed: {}", e)),
                    }
                })();
                self.torus_cache.insert(inv_key.clone(), r);
            }
            if let Err(e) = &self.torus_cache[&inv_key] {
                return Err(format!("ptc_builder_output_not_a_torus_cover: {}", e));
            }
        }
        let mut x = x0.clone();
        for t in &spec.cxf {
            x = t.apply_simple(&x)?;
        }
        // precondition of C16 on the D-set actually handed over
        dsx::manifold_check(&x).map_err(|e| format!("input_not_a_manifold_dset: {}", e))?;
        if !x.is_connected() {
            return Err("input_not_connected".into());
        }
        rec.in_size = x.n;
        rec.input_fp = fnv64(x.to_text().as_bytes());

        let hist = spec.hist;
        let warm = Sym::parse(TINY_WARMUP).unwrap().to_partial();
        let steer = spec.steer.clone();
        let (minb, recs) = (spec.steer_min_beyond, spec.rec_states);
        let pre = self.build_pre(spec);
        // the concrete input value is built here, on the builder thread, and
        // moved into the run thread: nothing but the scenario runs there
        enum Input {
            A(rust_dsymbols::dsets::PartialDSet),
            B(SimpleDSet),
            C(rust_dsymbols::dsyms::SimpleDSym),
            D(PartialDSym),
        }
        let input = match spec.repr {
            Repr::PartialDSet => Input::A(x.to_partial_dset()),
            Repr::SimpleDSet => Input::B(SimpleDSet::from(x.to_partial_dset())),
            Repr::SimpleDSym => Input::C(x.to_simple()),
            Repr::PartialDSym => Input::D(x.to_partial()),
        };
        let aborts_before = ABORTS_FIRED.load(std::sync::atomic::Ordering::SeqCst);
        let t_run = std::time::Instant::now();
        if let Some(f) = self.on_run_phase.as_mut() {
            f(true);
        }
        let out = on_fresh_thread(spec.k0, spec.k1, move || {
            for _ in 0..hist {
                let _ = is_euclidean(&warm);
            }
            run_pre(&pre);
            hooks_begin(&steer, minb, recs);
            let v = std::panic::catch_unwind(std::panic::AssertUnwindSafe(|| match &input {
                Input::A(d) => simplify(d),
                Input::B(d) => simplify(d),
                Input::C(d) => simplify(d),
                Input::D(d) => simplify(d),
            }));
            let out = hooks_end(());
            match v {
                Ok(v) => RunOut { value: v, decisions: out.decisions, stale: out.stale, probes: out.probes, states: out.states, state_tags: out.state_tags },
                Err(p) => std::panic::resume_unwind(p),
            }
        });
        rec.run_micros = t_run.elapsed().as_micros() as u64;
        if let Some(f) = self.on_run_phase.as_mut() {
            f(false);
        }
        rec.entropy_calls = out.entropy_calls;
        rec.aborts_fired = ABORTS_FIRED.load(std::sync::atomic::Ordering::SeqCst) - aborts_before;
        let ro = match out.result {
            Err(msg) => {
                rec.outcome = "panic".into();
                rec.detail = msg.clone();
                rec.out_fp = fnv64(format!("panic:{}", msg).as_bytes());
                if spec.op == Op::SimplifyPtc {
                    rec.failures.push((format!("panic@{}", panic_location(&msg)), msg));
                } else {
                    rec.notes.push("unjudged_panic".into());
                }
                return Ok(());
            }
            Ok(ro) => ro,
        };
        rec.decisions = ro.decisions;
        rec.stale_hook = ro.stale;
        rec.probes = ro.probes;

        // intermediate states (diagnostic; localises, never decides): every
        // intermediate D-set must be a manifold and, where the topology of the
        // input is pinned (torus / finite group), the sum of H1 over its
        // components must stay what it was (sphere surgery only splits off
        // simply connected pieces there)
        if !ro.states.is_empty() {
            let expected_h1: Option<Vec<u64>> = match spec.expect {
                Expect::Torus => Some(vec![0, 0, 0]),
                Expect::SameAsInput => homology::h1(&x0).ok(),
                Expect::Unknown => None,
            };
            for (k, st) in ro.states.iter().enumerate() {
                rec.states_checked += 1;
                rec.state_fps.push(fnv64(st.to_text().as_bytes()));
                if st.n == 0 {
                    if rec.first_bad_state.is_none() && expected_h1.as_ref().map_or(false, |h| !h.is_empty()) {
                        rec.first_bad_state = Some(format!("state {} ({}): empty", k, ro.state_tags[k]));
                    }
                    continue;
                }
                let bad = dsx::manifold_check(st).err().or_else(|| match &expected_h1 {
                    Some(h) => h1_sum_check(st, h).err(),
                    None => None,
                });
                if let Some(b) = bad {
                    if rec.first_bad_state.is_none() {
                        rec.first_bad_state = Some(format!("state {} ({}), {} chambers: {}", k, ro.state_tags[k], st.n, b));
                    }
                }
            }
        }

        let y = match ro.value {
            None => {
                rec.outcome = "none".into();
                rec.detail = "none".into();
                rec.out_fp = fnv64(b"none");
                return Ok(());
            }
            Some(y) => y,
        };
        rec.outcome = "some".into();
        let ys = match Sym::from_dsym(&y) {
            Ok(ys) => ys,
            Err(e) => {
                rec.failures.push(("O16.1:incomplete".into(), e));
                return Ok(());
            }
        };
        rec.out_size = ys.n;
        rec.out_fp = fnv64(ys.to_text().as_bytes());
        // O16.1
        if let Err(e) = dsx::manifold_check(&ys) {
            let clause = if e.contains("involution") || e.contains("out of range") {
                "not-a-dset"
            } else if e.contains("commute") {
                "far-ops-do-not-commute"
            } else if e.contains("branch") {
                "branched"
            } else if e.starts_with("(0,1,3)") || e.starts_with("(0,2,3)") {
                // the input was a manifold (precondition), so this result is
                // not the same space any more although tiles and vertex
                // figures are spheres
                "non-spherical-face-or-edge-link"
            } else {
                "non-spherical-tile-or-vertex-figure"
            };
            rec.failures.push((format!("O16.1:{}", clause), e));
            rec.detail = "invalid".into();
            return Ok(());
        }
        rec.out_connected = ys.is_connected();
        if !rec.out_connected {
            let ncomp = ys.orbits(&[0, 1, 2, 3]).len();
            rec.detail = format!("disconnected:{}", ncomp);
            return Ok(());
        }
        // the observable named by the property
        let cm = std::panic::catch_unwind(std::panic::AssertUnwindSafe(|| canonical(&minimal_image(&y)).to_string()));
        rec.detail = match cm {
            Ok(t) => t,
            Err(_) => {
                rec.inconclusive.push("canonical(minimal_image(result)) panicked".into());
                format!("fp:{:016x}", fnv64(ys.to_text().as_bytes()))
            }
        };
        // O16.4
        if spec.op == Op::SimplifyPtc {
            let tiles = ys.orbits(&[0, 1, 2]).len();
            let verts = ys.orbits(&[1, 2, 3]).len();
            if tiles != 1 {
                rec.failures.push(("O16.4:tiles".into(), format!("{} tiles in a connected result", tiles)));
            }
            if verts != 1 {
                rec.failures.push(("O16.4:vertices".into(), format!("{} vertices in a connected result", verts)));
            }
            for (i, j, what) in [(2usize, 3usize, "edge"), (0, 1, "face"), (1, 2, "tile-corner")] {
                for orb in ys.orbits(&[i, j]) {
                    if ys.r(i, j, orb[0]) == 2 {
                        rec.failures.push((format!("O16.4:degree-2-{}", what), format!("({},{})-orbit of chamber {} has r = 2", i, j, orb[0])));
                        break;
                    }
                }
            }
        }
        // O16.2
        if spec.expect != Expect::Unknown {
            let want4 = self.thorough && spec.deep;
            let (exp_h1, exp3, exp4): (Vec<u64>, usize, Option<usize>) = match spec.expect {
                Expect::Torus => (vec![0, 0, 0], 21, Some(56)),
                _ => {
                    let inv = self.input_invariants(&inv_key, &x0, want4);
                    match inv.h1 {
                        Ok(h) => (h, inv.idx3, inv.idx4),
                        Err(e) => {
                            rec.inconclusive.push(format!("own H1 of input failed: {}", e));
                            return Ok(());
                        }
                    }
                }
            };
            match homology::h1(&ys) {
                Err(e) => rec.inconclusive.push(format!("own H1 of result failed: {}", e)),
                Ok(h) => {
                    let repo = repo_h1(&y);
                    if repo != h {
                        rec.inconclusive.push(format!("instruments disagree on H1 of the result: own {:?}, repository {:?}", h, repo));
                    } else if h != exp_h1 {
                        rec.failures.push(("O16.2:h1".into(), format!("H1 of result {:?}, of input {:?}", h, exp_h1)));
                    } else {
                        let n2 = homology::index2_class_count(&h);
                        let e2 = homology::index2_class_count(&exp_h1);
                        if n2 != e2 {
                            rec.failures.push(("O16.2:index2".into(), format!("{} vs {}", n2, e2)));
                        }
                        let n3 = class_count(&y, 3, 1000);
                        if n3 != exp3 {
                            rec.failures.push(("O16.2:index3".into(), format!("{} classes of index <= 3 in result, {} in input", n3, exp3)));
                        } else if want4 {
                            if let Some(e4) = exp4 {
                                let n4 = class_count(&y, 4, 1000);
                                if n4 != e4 {
                                    rec.failures.push(("O16.2:index4".into(), format!("{} classes of index <= 4 in result, {} in input", n4, e4)));
                                }
                            }
                        }
                    }
                }
            }
        }
        Ok(())
    }
}

/// The sum over components of H1 must equal `expected` (sphere surgery may
/// split off simply connected pieces).
fn h1_sum_check(st: &Sym, expected: &[u64]) -> Result<(), String> {
    let mut total: Vec<u64> = vec![];
    for orb in st.orbits(&[0, 1, 2, 3]) {
        let comp = st.subsymbol(&[0, 1, 2, 3], orb[0]);
        match homology::h1(&comp) {
            Ok(h) => total.extend(h),
            Err(_) => return Ok(()),
        }
    }
    total.sort();
    let mut exp = expected.to_vec();
    exp.sort();
    if total == exp {
        Ok(())
    } else {
        Err(format!("sum of H1 over components is {:?}, expected {:?}", total, exp))
    }
}

/// "msg @ file:line" -> "file:line" (class key for panics)
pub fn panic_location(msg: &str) -> String {
    let loc = match msg.rfind(" @ ") {
        Some(k) => &msg[k + 3..],
        None => return "?".into(),
    };
    // relative to the crate root, so that the class does not depend on where
    // the repository is checked out
    match loc.rfind("/src/") {
        Some(k) => loc[k + 1..].to_string(),
        None => loc.to_string(),
    }
}
