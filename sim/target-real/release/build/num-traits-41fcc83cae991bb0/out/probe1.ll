; ModuleID = 'probe1.103258e1af9ac305-cgu.0'
source_filename = "probe1.103258e1af9ac305-cgu.0"
target datalayout = "e-m:e-p270:32:32-p271:32:32-p272:64:64-i64:64-i128:128-f80:128-n8:16:32:64-S128"
target triple = "x86_64-unknown-linux-gnu"

@alloc_f93507f8ba4b5780b14b2c2584609be0 = private unnamed_addr constant [8 x i8] c"\00\00\00\00\00\00\F0?", align 8
@alloc_ef0a1f828f3393ef691f2705e817091c = private unnamed_addr constant [8 x i8] c"\00\00\00\00\00\00\00@", align 8

; core::f64::<impl f64>::total_cmp
; Function Attrs: inlinehint nonlazybind uwtable
define internal i8 @"_ZN4core3f6421_$LT$impl$u20$f64$GT$9total_cmp17h2464dd2b82c7459bE"(ptr align 8 %self, ptr align 8 %other) unnamed_addr #0 {
start:
  %_6 = alloca [8 x i8], align 8
  %_3 = alloca [8 x i8], align 8
  %_5 = load double, ptr %self, align 8
  %_4 = bitcast double %_5 to i64
  store i64 %_4, ptr %_3, align 8
  %_8 = load double, ptr %other, align 8
  %_7 = bitcast double %_8 to i64
  store i64 %_7, ptr %_6, align 8
  %_13 = load i64, ptr %_3, align 8
  %_12 = ashr i64 %_13, 63
  %_10 = lshr i64 %_12, 1
  %0 = load i64, ptr %_3, align 8
  %1 = xor i64 %0, %_10
  store i64 %1, ptr %_3, align 8
  %_18 = load i64, ptr %_6, align 8
  %_17 = ashr i64 %_18, 63
  %_15 = lshr i64 %_17, 1
  %2 = load i64, ptr %_6, align 8
  %3 = xor i64 %2, %_15
  store i64 %3, ptr %_6, align 8
  %4 = load i64, ptr %_3, align 8
  %5 = load i64, ptr %_6, align 8
  %_0 = call i8 @llvm.scmp.i8.i64(i64 %4, i64 %5)
  ret i8 %_0
}

; probe1::probe
; Function Attrs: nonlazybind uwtable
define void @_ZN6probe15probe17ha84fcc02d0d1c740E() unnamed_addr #1 {
start:
; call core::f64::<impl f64>::total_cmp
  %_1 = call i8 @"_ZN4core3f6421_$LT$impl$u20$f64$GT$9total_cmp17h2464dd2b82c7459bE"(ptr align 8 @alloc_f93507f8ba4b5780b14b2c2584609be0, ptr align 8 @alloc_ef0a1f828f3393ef691f2705e817091c) #3
  ret void
}

; Function Attrs: nocallback nocreateundeforpoison nofree nosync nounwind speculatable willreturn memory(none)
declare range(i8 -1, 2) i8 @llvm.scmp.i8.i64(i64, i64) #2

attributes #0 = { inlinehint nonlazybind uwtable "probe-stack"="inline-asm" "target-cpu"="x86-64" }
attributes #1 = { nonlazybind uwtable "probe-stack"="inline-asm" "target-cpu"="x86-64" }
attributes #2 = { nocallback nocreateundeforpoison nofree nosync nounwind speculatable willreturn memory(none) }
attributes #3 = { inlinehint }

!llvm.module.flags = !{!0, !1}
!llvm.ident = !{!2}

!0 = !{i32 8, !"PIC Level", i32 2}
!1 = !{i32 2, !"RtLibUseGOT", i32 1}
!2 = !{!"rustc version 1.95.0 (59807616e 2026-04-14)"}
