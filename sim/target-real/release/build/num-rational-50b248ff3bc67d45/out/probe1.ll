; ModuleID = 'probe1.103258e1af9ac305-cgu.0'
source_filename = "probe1.103258e1af9ac305-cgu.0"
target datalayout = "e-m:e-p270:32:32-p271:32:32-p272:64:64-i64:64-i128:128-f80:128-n8:16:32:64-S128"
target triple = "x86_64-unknown-linux-gnu"

%"core::fmt::rt::Argument<'_>" = type { %"core::fmt::rt::ArgumentType<'_>" }
%"core::fmt::rt::ArgumentType<'_>" = type { ptr, [1 x i64] }

@alloc_bd3468a7b96187f70c1ce98a3e7a63bf = private unnamed_addr constant [283 x i8] c"unsafe precondition(s) violated: ptr::copy_nonoverlapping requires that both pointer arguments are aligned and non-null and the specified memory ranges do not overlap\0A\0AThis indicates a bug in the program. This Undefined Behavior check is optional, and cannot be relied on for safety.", align 1
@alloc_fad0cd83b7d1858a846a172eb260e593 = private unnamed_addr constant [42 x i8] c"is_aligned_to: align is not a power-of-two", align 1
@alloc_3d063512bd2a283debbda10df8c730ad = private unnamed_addr constant [82 x i8] c"/rustc/59807616e1fa2540724bfbac14d7976d7e4a3860/library/core/src/ptr/const_ptr.rs\00", align 1
@alloc_180ab55c3ad9891a0d81c48ca2ae33fa = private unnamed_addr constant <{ ptr, [16 x i8] }> <{ ptr @alloc_3d063512bd2a283debbda10df8c730ad, [16 x i8] c"Q\00\00\00\00\00\00\00^\05\00\00\0D\00\00\00" }>, align 8
@alloc_64e308ef4babfeb8b6220184de794a17 = private unnamed_addr constant [221 x i8] c"unsafe precondition(s) violated: hint::assert_unchecked must never be called when the condition is false\0A\0AThis indicates a bug in the program. This Undefined Behavior check is optional, and cannot be relied on for safety.", align 1
@alloc_a28e8c8fd5088943a8b5d44af697ff83 = private unnamed_addr constant [279 x i8] c"unsafe precondition(s) violated: slice::from_raw_parts requires the pointer to be aligned and non-null, and the total size of the slice not to exceed `isize::MAX`\0A\0AThis indicates a bug in the program. This Undefined Behavior check is optional, and cannot be relied on for safety.", align 1
@alloc_763310d78c99c2c1ad3f8a9821e942f3 = private unnamed_addr constant [61 x i8] c"is_nonoverlapping: `size_of::<T>() * count` overflows a usize", align 1
@alloc_1a4f054d79d64d0cbbee42404703d138 = private unnamed_addr constant [76 x i8] c"/rustc/59807616e1fa2540724bfbac14d7976d7e4a3860/library/core/src/fmt/mod.rs\00", align 1
@alloc_c744d1012daac153da5bdea777499410 = private unnamed_addr constant <{ ptr, [16 x i8] }> <{ ptr @alloc_1a4f054d79d64d0cbbee42404703d138, [16 x i8] c"K\00\00\00\00\00\00\00q\03\00\00*\00\00\00" }>, align 8
@anon.450d0165cb5f0d4fdb2025d1c02b897a.0 = private unnamed_addr constant <{ [8 x i8], [8 x i8] }> <{ [8 x i8] zeroinitializer, [8 x i8] undef }>, align 8
@alloc_57d70e9d94c65ecfc15225d29a5ed72b = private unnamed_addr constant [198 x i8] c"unsafe precondition(s) violated: Vec::set_len requires that new_len <= capacity()\0A\0AThis indicates a bug in the program. This Undefined Behavior check is optional, and cannot be relied on for safety.", align 1
@alloc_d41466a556d037f23fe96152fbab9365 = private unnamed_addr constant [81 x i8] c"/rustc/59807616e1fa2540724bfbac14d7976d7e4a3860/library/alloc/src/raw_vec/mod.rs\00", align 1
@alloc_8a557fa53722333f4e14612354d66d02 = private unnamed_addr constant <{ ptr, [16 x i8] }> <{ ptr @alloc_d41466a556d037f23fe96152fbab9365, [16 x i8] c"P\00\00\00\00\00\00\00\B5\01\00\00\15\00\00\00" }>, align 8
@alloc_53973d2fe29b4adba8bb7390b5678745 = private unnamed_addr constant [8 x i8] zeroinitializer, align 8
@alloc_0c812808379efded5a4fb82d2790b556 = private unnamed_addr constant [2 x i8] c"\C0\00", align 1
@alloc_b5fc2a6f2f5a9fc4395aada8c7c926bf = private unnamed_addr constant [76 x i8] c"/rustc/59807616e1fa2540724bfbac14d7976d7e4a3860/library/core/src/ptr/mod.rs\00", align 1
@alloc_37f6e60a2902ea1334fb3e649d7c5a34 = private unnamed_addr constant <{ ptr, [16 x i8] }> <{ ptr @alloc_b5fc2a6f2f5a9fc4395aada8c7c926bf, [16 x i8] c"K\00\00\00\00\00\00\00\0F\02\00\00\05\00\00\00" }>, align 8
@alloc_9877fdffb06d7cb7231dc08b14b0e6fe = private unnamed_addr constant [77 x i8] c"/rustc/59807616e1fa2540724bfbac14d7976d7e4a3860/library/alloc/src/vec/mod.rs\00", align 1
@alloc_490992312822afe82cb6f17d9c546139 = private unnamed_addr constant <{ ptr, [16 x i8] }> <{ ptr @alloc_9877fdffb06d7cb7231dc08b14b0e6fe, [16 x i8] c"L\00\00\00\00\00\00\00r\08\00\00\09\00\00\00" }>, align 8

; core::intrinsics::cold_path
; Function Attrs: cold nounwind nonlazybind uwtable
define internal void @_ZN4core10intrinsics9cold_path17h1baace4b66df643aE() unnamed_addr #0 {
start:
  ret void
}

; core::fmt::rt::Argument::new_lower_exp
; Function Attrs: inlinehint nonlazybind uwtable
define void @_ZN4core3fmt2rt8Argument13new_lower_exp17hcdc299dc1189772dE(ptr sret([16 x i8]) align 8 %_0, ptr align 8 %x) unnamed_addr #1 {
start:
  %_2 = alloca [16 x i8], align 8
  store ptr %x, ptr %_2, align 8
  %0 = getelementptr inbounds i8, ptr %_2, i64 8
  store ptr @_RNvXsD_NtNtNtCsgEmfK2I1SDS_4core3fmt3num3impiNtB9_8LowerExp3fmt, ptr %0, align 8
  call void @llvm.memcpy.p0.p0.i64(ptr align 8 %_0, ptr align 8 %_2, i64 16, i1 false)
  ret void
}

; core::fmt::Arguments::new
; Function Attrs: inlinehint nonlazybind uwtable
define { ptr, ptr } @_ZN4core3fmt9Arguments3new17h09d46958d5538fe4E(ptr align 1 %template, ptr align 8 %args) unnamed_addr #1 {
start:
  %0 = insertvalue { ptr, ptr } poison, ptr %template, 0
  %1 = insertvalue { ptr, ptr } %0, ptr %args, 1
  ret { ptr, ptr } %1
}

; core::ops::function::FnOnce::call_once
; Function Attrs: inlinehint nonlazybind uwtable
define internal void @_ZN4core3ops8function6FnOnce9call_once17hbc63fc89763e1a09E(ptr sret([24 x i8]) align 8 %_0, ptr align 1 %0, i64 %1) unnamed_addr #1 {
start:
  %_2 = alloca [16 x i8], align 8
  store ptr %0, ptr %_2, align 8
  %2 = getelementptr inbounds i8, ptr %_2, i64 8
  store i64 %1, ptr %2, align 8
  %3 = load ptr, ptr %_2, align 8
  %4 = getelementptr inbounds i8, ptr %_2, i64 8
  %5 = load i64, ptr %4, align 8
; call alloc::str::<impl alloc::borrow::ToOwned for str>::to_owned
  call void @"_ZN5alloc3str56_$LT$impl$u20$alloc..borrow..ToOwned$u20$for$u20$str$GT$8to_owned17h8b5e3950322c18e0E"(ptr sret([24 x i8]) align 8 %_0, ptr align 1 %3, i64 %5) #11
  ret void
}

; core::ptr::copy_nonoverlapping::precondition_check
; Function Attrs: inlinehint nounwind nonlazybind uwtable
define internal void @_ZN4core3ptr19copy_nonoverlapping18precondition_check17h28c7bd6518e37314E(ptr %src, ptr %dst, i64 %size, i64 %align, i64 %count, ptr align 8 %0) unnamed_addr #2 personality ptr @rust_eh_personality {
start:
  %zero_size = alloca [1 x i8], align 1
  %1 = icmp eq i64 %count, 0
  br i1 %1, label %bb1, label %bb2

bb1:                                              ; preds = %start
  store i8 1, ptr %zero_size, align 1
  br label %bb3

bb2:                                              ; preds = %start
  %2 = icmp eq i64 %size, 0
  %3 = zext i1 %2 to i8
  store i8 %3, ptr %zero_size, align 1
  br label %bb3

bb3:                                              ; preds = %bb2, %bb1
  %4 = load i8, ptr %zero_size, align 1
  %is_zst = trunc nuw i8 %4 to i1
; invoke core::ptr::const_ptr::<impl *const T>::is_aligned_to
  %_15 = invoke zeroext i1 @"_ZN4core3ptr9const_ptr33_$LT$impl$u20$$BP$const$u20$T$GT$13is_aligned_to17hb4a6def7ccd383ebE"(ptr %src, i64 %align)
          to label %bb15 unwind label %terminate

terminate:                                        ; preds = %bb5, %bb4, %bb3
  %5 = landingpad { ptr, i32 }
          filter [0 x ptr] zeroinitializer
; call core::panicking::panic_cannot_unwind
  call void @_RNvNtCsgEmfK2I1SDS_4core9panicking19panic_cannot_unwind() #12
  unreachable

bb15:                                             ; preds = %bb3
  br i1 %_15, label %bb11, label %bb12

bb12:                                             ; preds = %bb15
  br label %bb7

bb11:                                             ; preds = %bb15
  br i1 %is_zst, label %bb13, label %bb14

bb7:                                              ; preds = %bb14, %bb12
  br label %bb8

bb14:                                             ; preds = %bb11
  %_17 = ptrtoint ptr %src to i64
  %_16 = icmp eq i64 %_17, 0
  %_8 = xor i1 %_16, true
  br i1 %_8, label %bb4, label %bb7

bb13:                                             ; preds = %bb11
  br label %bb4

bb4:                                              ; preds = %bb13, %bb14
; invoke core::ptr::const_ptr::<impl *const T>::is_aligned_to
  %_18 = invoke zeroext i1 @"_ZN4core3ptr9const_ptr33_$LT$impl$u20$$BP$const$u20$T$GT$13is_aligned_to17hb4a6def7ccd383ebE"(ptr %dst, i64 %align)
          to label %bb20 unwind label %terminate

bb8:                                              ; preds = %bb6, %bb7
  br label %bb9

bb20:                                             ; preds = %bb4
  br i1 %_18, label %bb16, label %bb17

bb17:                                             ; preds = %bb20
  br label %bb6

bb16:                                             ; preds = %bb20
  %6 = load i8, ptr %zero_size, align 1
  %7 = trunc nuw i8 %6 to i1
  br i1 %7, label %bb18, label %bb19

bb6:                                              ; preds = %bb19, %bb17
  br label %bb8

bb19:                                             ; preds = %bb16
  %_20 = ptrtoint ptr %dst to i64
  %_19 = icmp eq i64 %_20, 0
  %_10 = xor i1 %_19, true
  br i1 %_10, label %bb5, label %bb6

bb18:                                             ; preds = %bb16
  br label %bb5

bb5:                                              ; preds = %bb18, %bb19
; invoke core::ub_checks::maybe_is_nonoverlapping::runtime
  %_6 = invoke zeroext i1 @_ZN4core9ub_checks23maybe_is_nonoverlapping7runtime17h43e346983ad8ce37E(ptr %src, ptr %dst, i64 %size, i64 %count)
          to label %bb21 unwind label %terminate

bb9:                                              ; preds = %bb21, %bb8
; call core::panicking::panic_nounwind_fmt
  call void @_RNvNtCsgEmfK2I1SDS_4core9panicking18panic_nounwind_fmt(ptr @alloc_bd3468a7b96187f70c1ce98a3e7a63bf, ptr inttoptr (i64 567 to ptr), i1 zeroext false, ptr align 8 %0) #13
  unreachable

bb21:                                             ; preds = %bb5
  br i1 %_6, label %bb10, label %bb9

bb10:                                             ; preds = %bb21
  ret void
}

; core::ptr::drop_in_place<alloc::string::String>
; Function Attrs: nonlazybind uwtable
define void @"_ZN4core3ptr42drop_in_place$LT$alloc..string..String$GT$17hca470dd8a6ee50b2E"(ptr align 8 %_1) unnamed_addr #3 {
start:
; call core::ptr::drop_in_place<alloc::vec::Vec<u8>>
  call void @"_ZN4core3ptr46drop_in_place$LT$alloc..vec..Vec$LT$u8$GT$$GT$17h526fc155cdd6594fE"(ptr align 8 %_1)
  ret void
}

; core::ptr::drop_in_place<alloc::vec::Vec<u8>>
; Function Attrs: nonlazybind uwtable
define void @"_ZN4core3ptr46drop_in_place$LT$alloc..vec..Vec$LT$u8$GT$$GT$17h526fc155cdd6594fE"(ptr align 8 %_1) unnamed_addr #3 personality ptr @rust_eh_personality {
start:
  %0 = alloca [16 x i8], align 8
; invoke <alloc::vec::Vec<u8> as core::ops::drop::Drop>::drop
  invoke void @_RNvXso_NtCslNYArtu3iFV_5alloc3vecINtB5_3VechENtNtNtCsgEmfK2I1SDS_4core3ops4drop4Drop4dropCsduwmD7cSIQq_5gimli(ptr align 8 %_1)
          to label %bb4 unwind label %cleanup

bb3:                                              ; preds = %cleanup
; invoke core::ptr::drop_in_place<alloc::raw_vec::RawVec<u8>>
  invoke void @"_ZN4core3ptr53drop_in_place$LT$alloc..raw_vec..RawVec$LT$u8$GT$$GT$17hdab09549c0411761E"(ptr align 8 %_1) #14
          to label %bb1 unwind label %terminate

cleanup:                                          ; preds = %start
  %1 = landingpad { ptr, i32 }
          cleanup
  %2 = extractvalue { ptr, i32 } %1, 0
  %3 = extractvalue { ptr, i32 } %1, 1
  store ptr %2, ptr %0, align 8
  %4 = getelementptr inbounds i8, ptr %0, i64 8
  store i32 %3, ptr %4, align 8
  br label %bb3

bb4:                                              ; preds = %start
; call core::ptr::drop_in_place<alloc::raw_vec::RawVec<u8>>
  call void @"_ZN4core3ptr53drop_in_place$LT$alloc..raw_vec..RawVec$LT$u8$GT$$GT$17hdab09549c0411761E"(ptr align 8 %_1)
  ret void

terminate:                                        ; preds = %bb3
  %5 = landingpad { ptr, i32 }
          filter [0 x ptr] zeroinitializer
; call core::panicking::panic_in_cleanup
  call void @_RNvNtCsgEmfK2I1SDS_4core9panicking16panic_in_cleanup() #12
  unreachable

bb1:                                              ; preds = %bb3
  %6 = load ptr, ptr %0, align 8
  %7 = getelementptr inbounds i8, ptr %0, i64 8
  %8 = load i32, ptr %7, align 8
  %9 = insertvalue { ptr, i32 } poison, ptr %6, 0
  %10 = insertvalue { ptr, i32 } %9, i32 %8, 1
  resume { ptr, i32 } %10
}

; core::ptr::drop_in_place<alloc::raw_vec::RawVec<u8>>
; Function Attrs: nonlazybind uwtable
define void @"_ZN4core3ptr53drop_in_place$LT$alloc..raw_vec..RawVec$LT$u8$GT$$GT$17hdab09549c0411761E"(ptr align 8 %_1) unnamed_addr #3 {
start:
; call <alloc::raw_vec::RawVec<u8> as core::ops::drop::Drop>::drop
  call void @_RNvXs1_NtCslNYArtu3iFV_5alloc7raw_vecINtB5_6RawVechENtNtNtCsgEmfK2I1SDS_4core3ops4drop4Drop4dropCsduwmD7cSIQq_5gimli(ptr align 8 %_1)
  ret void
}

; core::ptr::const_ptr::<impl *const T>::is_aligned_to
; Function Attrs: inlinehint nonlazybind uwtable
define zeroext i1 @"_ZN4core3ptr9const_ptr33_$LT$impl$u20$$BP$const$u20$T$GT$13is_aligned_to17hb4a6def7ccd383ebE"(ptr %self, i64 %align) unnamed_addr #1 {
start:
  %0 = alloca [4 x i8], align 4
  %1 = call i64 @llvm.ctpop.i64(i64 %align)
  %2 = trunc i64 %1 to i32
  store i32 %2, ptr %0, align 4
  %_8 = load i32, ptr %0, align 4
  %3 = icmp eq i32 %_8, 1
  br i1 %3, label %bb1, label %bb2

bb1:                                              ; preds = %start
  %_6 = ptrtoint ptr %self to i64
  %_7 = sub i64 %align, 1
  %_5 = and i64 %_6, %_7
  %_0 = icmp eq i64 %_5, 0
  ret i1 %_0

bb2:                                              ; preds = %start
; call core::panicking::panic_fmt
  call void @_RNvNtCsgEmfK2I1SDS_4core9panicking9panic_fmt(ptr @alloc_fad0cd83b7d1858a846a172eb260e593, ptr inttoptr (i64 85 to ptr), ptr align 8 @alloc_180ab55c3ad9891a0d81c48ca2ae33fa) #15
  unreachable
}

; core::hint::assert_unchecked::precondition_check
; Function Attrs: inlinehint nounwind nonlazybind uwtable
define internal void @_ZN4core4hint16assert_unchecked18precondition_check17h3b5ad4bb041a54e3E(i1 zeroext %cond, ptr align 8 %0) unnamed_addr #2 {
start:
  br i1 %cond, label %bb2, label %bb1

bb1:                                              ; preds = %start
; call core::panicking::panic_nounwind_fmt
  call void @_RNvNtCsgEmfK2I1SDS_4core9panicking18panic_nounwind_fmt(ptr @alloc_64e308ef4babfeb8b6220184de794a17, ptr inttoptr (i64 443 to ptr), i1 zeroext false, ptr align 8 %0) #13
  unreachable

bb2:                                              ; preds = %start
  ret void
}

; core::slice::raw::from_raw_parts::precondition_check
; Function Attrs: inlinehint nounwind nonlazybind uwtable
define internal void @_ZN4core5slice3raw14from_raw_parts18precondition_check17h430469fb489da8a0E(ptr %data, i64 %size, i64 %align, i64 %len, ptr align 8 %0) unnamed_addr #2 personality ptr @rust_eh_personality {
start:
  %max_len = alloca [8 x i8], align 8
; invoke core::ptr::const_ptr::<impl *const T>::is_aligned_to
  %_11 = invoke zeroext i1 @"_ZN4core3ptr9const_ptr33_$LT$impl$u20$$BP$const$u20$T$GT$13is_aligned_to17hb4a6def7ccd383ebE"(ptr %data, i64 %align)
          to label %bb8 unwind label %terminate

terminate:                                        ; preds = %start
  %1 = landingpad { ptr, i32 }
          filter [0 x ptr] zeroinitializer
; call core::panicking::panic_cannot_unwind
  call void @_RNvNtCsgEmfK2I1SDS_4core9panicking19panic_cannot_unwind() #12
  unreachable

bb8:                                              ; preds = %start
  br i1 %_11, label %bb6, label %bb7

bb7:                                              ; preds = %bb8
  br label %bb4

bb6:                                              ; preds = %bb8
  %_13 = ptrtoint ptr %data to i64
  %_12 = icmp eq i64 %_13, 0
  %_5 = xor i1 %_12, true
  br i1 %_5, label %bb1, label %bb4

bb4:                                              ; preds = %bb6, %bb7
  br label %bb5

bb1:                                              ; preds = %bb6
  %2 = icmp eq i64 %size, 0
  br i1 %2, label %bb9, label %bb10

bb5:                                              ; preds = %bb3, %bb4
; call core::panicking::panic_nounwind_fmt
  call void @_RNvNtCsgEmfK2I1SDS_4core9panicking18panic_nounwind_fmt(ptr @alloc_a28e8c8fd5088943a8b5d44af697ff83, ptr inttoptr (i64 559 to ptr), i1 zeroext false, ptr align 8 %0) #13
  unreachable

bb9:                                              ; preds = %bb1
  store i64 -1, ptr %max_len, align 8
  br label %bb11

bb10:                                             ; preds = %bb1
  %3 = udiv i64 9223372036854775807, %size
  store i64 %3, ptr %max_len, align 8
  br label %bb11

bb11:                                             ; preds = %bb10, %bb9
  %4 = load i64, ptr %max_len, align 8
  %_7 = icmp ule i64 %len, %4
  br i1 %_7, label %bb2, label %bb3

bb3:                                              ; preds = %bb11
  br label %bb5

bb2:                                              ; preds = %bb11
  ret void
}

; core::option::Option<T>::map_or_else
; Function Attrs: inlinehint nonlazybind uwtable
define void @"_ZN4core6option15Option$LT$T$GT$11map_or_else17h8264aa43cc2c7473E"(ptr sret([24 x i8]) align 8 %_0, ptr align 1 %0, i64 %1, ptr align 8 %default) unnamed_addr #1 personality ptr @rust_eh_personality {
start:
  %2 = alloca [16 x i8], align 8
  %_10 = alloca [1 x i8], align 1
  %_9 = alloca [1 x i8], align 1
  %self = alloca [16 x i8], align 8
  store ptr %0, ptr %self, align 8
  %3 = getelementptr inbounds i8, ptr %self, i64 8
  store i64 %1, ptr %3, align 8
  store i8 1, ptr %_10, align 1
  store i8 1, ptr %_9, align 1
  %4 = load ptr, ptr %self, align 8
  %5 = getelementptr inbounds i8, ptr %self, i64 8
  %6 = load i64, ptr %5, align 8
  %7 = ptrtoint ptr %4 to i64
  %8 = icmp eq i64 %7, 0
  %_4 = select i1 %8, i64 0, i64 1
  %9 = trunc nuw i64 %_4 to i1
  br i1 %9, label %bb3, label %bb2

bb3:                                              ; preds = %start
  %t.0 = load ptr, ptr %self, align 8
  %10 = getelementptr inbounds i8, ptr %self, i64 8
  %t.1 = load i64, ptr %10, align 8
  store i8 0, ptr %_9, align 1
; invoke core::ops::function::FnOnce::call_once
  invoke void @_ZN4core3ops8function6FnOnce9call_once17hbc63fc89763e1a09E(ptr sret([24 x i8]) align 8 %_0, ptr align 1 %t.0, i64 %t.1)
          to label %bb4 unwind label %cleanup

bb2:                                              ; preds = %start
  store i8 0, ptr %_10, align 1
; invoke alloc::fmt::format::{{closure}}
  invoke void @"_ZN5alloc3fmt6format28_$u7b$$u7b$closure$u7d$$u7d$17hf01418fef7fbb2c0E"(ptr sret([24 x i8]) align 8 %_0, ptr align 8 %default)
          to label %bb5 unwind label %cleanup

bb10:                                             ; preds = %cleanup
  %11 = load i8, ptr %_9, align 1
  %12 = trunc nuw i8 %11 to i1
  br i1 %12, label %bb9, label %bb7

cleanup:                                          ; preds = %bb3, %bb2
  %13 = landingpad { ptr, i32 }
          cleanup
  %14 = extractvalue { ptr, i32 } %13, 0
  %15 = extractvalue { ptr, i32 } %13, 1
  store ptr %14, ptr %2, align 8
  %16 = getelementptr inbounds i8, ptr %2, i64 8
  store i32 %15, ptr %16, align 8
  br label %bb10

bb5:                                              ; preds = %bb2
  br label %bb6

bb6:                                              ; preds = %bb4, %bb5
  ret void

bb4:                                              ; preds = %bb3
  br label %bb6

bb7:                                              ; preds = %bb9, %bb10
  %17 = load i8, ptr %_10, align 1
  %18 = trunc nuw i8 %17 to i1
  br i1 %18, label %bb11, label %bb8

bb9:                                              ; preds = %bb10
  br label %bb7

bb8:                                              ; preds = %bb11, %bb7
  %19 = load ptr, ptr %2, align 8
  %20 = getelementptr inbounds i8, ptr %2, i64 8
  %21 = load i32, ptr %20, align 8
  %22 = insertvalue { ptr, i32 } poison, ptr %19, 0
  %23 = insertvalue { ptr, i32 } %22, i32 %21, 1
  resume { ptr, i32 } %23

bb11:                                             ; preds = %bb7
  br label %bb8

bb1:                                              ; No predecessors!
  unreachable
}

; core::ub_checks::maybe_is_nonoverlapping::runtime
; Function Attrs: inlinehint nonlazybind uwtable
define internal zeroext i1 @_ZN4core9ub_checks23maybe_is_nonoverlapping7runtime17h43e346983ad8ce37E(ptr %src, ptr %dst, i64 %size, i64 %count) unnamed_addr #1 {
start:
  %diff = alloca [8 x i8], align 8
  %_9 = alloca [16 x i8], align 8
  %src_usize = ptrtoint ptr %src to i64
  %dst_usize = ptrtoint ptr %dst to i64
  %0 = call { i64, i1 } @llvm.umul.with.overflow.i64(i64 %size, i64 %count)
  %_13.0 = extractvalue { i64, i1 } %0, 0
  %_13.1 = extractvalue { i64, i1 } %0, 1
  br i1 %_13.1, label %bb1, label %bb3

bb3:                                              ; preds = %start
  %1 = getelementptr inbounds i8, ptr %_9, i64 8
  store i64 %_13.0, ptr %1, align 8
  store i64 1, ptr %_9, align 8
  %2 = getelementptr inbounds i8, ptr %_9, i64 8
  %size1 = load i64, ptr %2, align 8
  %_21 = icmp ult i64 %src_usize, %dst_usize
  br i1 %_21, label %bb4, label %bb5

bb1:                                              ; preds = %start
; call core::panicking::panic_nounwind
  call void @_RNvNtCsgEmfK2I1SDS_4core9panicking14panic_nounwind(ptr align 1 @alloc_763310d78c99c2c1ad3f8a9821e942f3, i64 61) #13
  unreachable

bb5:                                              ; preds = %bb3
  %3 = sub i64 %src_usize, %dst_usize
  store i64 %3, ptr %diff, align 8
  br label %bb6

bb4:                                              ; preds = %bb3
  %4 = sub i64 %dst_usize, %src_usize
  store i64 %4, ptr %diff, align 8
  br label %bb6

bb6:                                              ; preds = %bb4, %bb5
  %5 = load i64, ptr %diff, align 8
  %_0 = icmp uge i64 %5, %size1
  ret i1 %_0
}

; alloc::fmt::format
; Function Attrs: inlinehint nonlazybind uwtable
define internal void @_ZN5alloc3fmt6format17he914d7ae6f87a36bE(ptr sret([24 x i8]) align 8 %_0, ptr %0, ptr %1) unnamed_addr #1 {
start:
  %_2 = alloca [16 x i8], align 8
  %args = alloca [16 x i8], align 8
  store ptr %0, ptr %args, align 8
  %2 = getelementptr inbounds i8, ptr %args, i64 8
  store ptr %1, ptr %2, align 8
  %3 = getelementptr inbounds i8, ptr %args, i64 8
  %_7 = load ptr, ptr %3, align 8
  %bits = ptrtoint ptr %_7 to i64
  %_8 = and i64 %bits, 1
  %4 = icmp eq i64 %_8, 1
  br i1 %4, label %bb3, label %bb4

bb3:                                              ; preds = %start
  %self = load ptr, ptr %args, align 8
  %len = lshr i64 %bits, 1
  br label %bb5

bb4:                                              ; preds = %start
  %5 = load ptr, ptr @anon.450d0165cb5f0d4fdb2025d1c02b897a.0, align 8
  %6 = load i64, ptr getelementptr inbounds (i8, ptr @anon.450d0165cb5f0d4fdb2025d1c02b897a.0, i64 8), align 8
  store ptr %5, ptr %_2, align 8
  %7 = getelementptr inbounds i8, ptr %_2, i64 8
  store i64 %6, ptr %7, align 8
  br label %bb2

bb5:                                              ; preds = %bb3
; call core::slice::raw::from_raw_parts::precondition_check
  call void @_ZN4core5slice3raw14from_raw_parts18precondition_check17h430469fb489da8a0E(ptr %self, i64 1, i64 1, i64 %len, ptr align 8 @alloc_c744d1012daac153da5bdea777499410) #16
  br label %bb7

bb7:                                              ; preds = %bb5
  store ptr %self, ptr %_2, align 8
  %8 = getelementptr inbounds i8, ptr %_2, i64 8
  store i64 %len, ptr %8, align 8
  br label %bb2

bb2:                                              ; preds = %bb4, %bb7
  %9 = load ptr, ptr %_2, align 8
  %10 = getelementptr inbounds i8, ptr %_2, i64 8
  %11 = load i64, ptr %10, align 8
; call core::option::Option<T>::map_or_else
  call void @"_ZN4core6option15Option$LT$T$GT$11map_or_else17h8264aa43cc2c7473E"(ptr sret([24 x i8]) align 8 %_0, ptr align 1 %9, i64 %11, ptr align 8 %args) #11
  ret void
}

; alloc::fmt::format::{{closure}}
; Function Attrs: inlinehint nonlazybind uwtable
define void @"_ZN5alloc3fmt6format28_$u7b$$u7b$closure$u7d$$u7d$17hf01418fef7fbb2c0E"(ptr sret([24 x i8]) align 8 %_0, ptr align 8 %_1) unnamed_addr #1 {
start:
  %_2.0 = load ptr, ptr %_1, align 8
  %0 = getelementptr inbounds i8, ptr %_1, i64 8
  %_2.1 = load ptr, ptr %0, align 8
; call alloc::fmt::format::format_inner
  call void @_RNvNvNtCslNYArtu3iFV_5alloc3fmt6format12format_inner(ptr sret([24 x i8]) align 8 %_0, ptr %_2.0, ptr %_2.1)
  ret void
}

; alloc::str::<impl alloc::borrow::ToOwned for str>::to_owned
; Function Attrs: inlinehint nonlazybind uwtable
define internal void @"_ZN5alloc3str56_$LT$impl$u20$alloc..borrow..ToOwned$u20$for$u20$str$GT$8to_owned17h8b5e3950322c18e0E"(ptr sret([24 x i8]) align 8 %_0, ptr align 1 %self.0, i64 %self.1) unnamed_addr #1 {
start:
  %bytes = alloca [24 x i8], align 8
; call <T as alloc::slice::<impl [T]>::to_vec_in::ConvertVec>::to_vec
  call void @"_ZN87_$LT$T$u20$as$u20$alloc..slice..$LT$impl$u20$$u5b$T$u5d$$GT$..to_vec_in..ConvertVec$GT$6to_vec17he9d278d3e0c1a96fE"(ptr sret([24 x i8]) align 8 %bytes, ptr align 1 %self.0, i64 %self.1) #11
  call void @llvm.memcpy.p0.p0.i64(ptr align 8 %_0, ptr align 8 %bytes, i64 24, i1 false)
  ret void
}

; alloc::vec::Vec<T,A>::set_len::precondition_check
; Function Attrs: inlinehint nounwind nonlazybind uwtable
define internal void @"_ZN5alloc3vec16Vec$LT$T$C$A$GT$7set_len18precondition_check17hcc36620b3f7c10a1E"(i64 %new_len, i64 %capacity, ptr align 8 %0) unnamed_addr #2 {
start:
  %_3 = icmp ule i64 %new_len, %capacity
  br i1 %_3, label %bb1, label %bb2

bb2:                                              ; preds = %start
; call core::panicking::panic_nounwind_fmt
  call void @_RNvNtCsgEmfK2I1SDS_4core9panicking18panic_nounwind_fmt(ptr @alloc_57d70e9d94c65ecfc15225d29a5ed72b, ptr inttoptr (i64 397 to ptr), i1 zeroext false, ptr align 8 %0) #13
  unreachable

bb1:                                              ; preds = %start
  ret void
}

; alloc::raw_vec::RawVecInner<A>::with_capacity_in
; Function Attrs: inlinehint nonlazybind uwtable
define { i64, ptr } @"_ZN5alloc7raw_vec20RawVecInner$LT$A$GT$16with_capacity_in17hcd5922f511436fb7E"(i64 %capacity, i64 %elem_layout.0, i64 %elem_layout.1) unnamed_addr #1 {
start:
  %self = alloca [8 x i8], align 8
  %_4 = alloca [24 x i8], align 8
; call <alloc::raw_vec::RawVecInner>::try_allocate_in
  call void @_RNvMs4_NtCslNYArtu3iFV_5alloc7raw_vecNtB5_11RawVecInner15try_allocate_inCsduwmD7cSIQq_5gimli(ptr sret([24 x i8]) align 8 %_4, i64 %capacity, i1 zeroext false, i64 %elem_layout.0, i64 %elem_layout.1)
  %_5 = load i64, ptr %_4, align 8
  %0 = trunc nuw i64 %_5 to i1
  br i1 %0, label %bb3, label %bb4

bb3:                                              ; preds = %start
  %1 = getelementptr inbounds i8, ptr %_4, i64 8
  %err.0 = load i64, ptr %1, align 8
  %2 = getelementptr inbounds i8, ptr %1, i64 8
  %err.1 = load i64, ptr %2, align 8
; call alloc::raw_vec::handle_error
  call void @_RNvNtCslNYArtu3iFV_5alloc7raw_vec12handle_error(i64 %err.0, i64 %err.1) #17
  unreachable

bb4:                                              ; preds = %start
  %3 = getelementptr inbounds i8, ptr %_4, i64 8
  %this.0 = load i64, ptr %3, align 8
  %4 = getelementptr inbounds i8, ptr %3, i64 8
  %this.1 = load ptr, ptr %4, align 8
  %5 = icmp eq i64 %elem_layout.1, 0
  br i1 %5, label %bb6, label %bb7

bb6:                                              ; preds = %bb4
  store i64 -1, ptr %self, align 8
  br label %bb5

bb7:                                              ; preds = %bb4
  store i64 %this.0, ptr %self, align 8
  br label %bb5

bb5:                                              ; preds = %bb7, %bb6
  %6 = load i64, ptr %self, align 8
  %_11 = sub i64 %6, 0
  %_7 = icmp ugt i64 %capacity, %_11
  %cond = xor i1 %_7, true
  br label %bb8

bb8:                                              ; preds = %bb5
; call core::hint::assert_unchecked::precondition_check
  call void @_ZN4core4hint16assert_unchecked18precondition_check17h3b5ad4bb041a54e3E(i1 zeroext %cond, ptr align 8 @alloc_8a557fa53722333f4e14612354d66d02) #16
  br label %bb9

bb9:                                              ; preds = %bb8
  %7 = insertvalue { i64, ptr } poison, i64 %this.0, 0
  %8 = insertvalue { i64, ptr } %7, ptr %this.1, 1
  ret { i64, ptr } %8

bb2:                                              ; No predecessors!
  unreachable
}

; probe1::probe
; Function Attrs: nonlazybind uwtable
define void @_ZN6probe15probe17ha84fcc02d0d1c740E() unnamed_addr #3 {
start:
  %_7 = alloca [16 x i8], align 8
  %args = alloca [16 x i8], align 8
  %_2 = alloca [24 x i8], align 8
  %_1 = alloca [24 x i8], align 8
; call core::fmt::rt::Argument::new_lower_exp
  call void @_ZN4core3fmt2rt8Argument13new_lower_exp17hcdc299dc1189772dE(ptr sret([16 x i8]) align 8 %_7, ptr align 8 @alloc_53973d2fe29b4adba8bb7390b5678745) #11
  %0 = getelementptr inbounds nuw %"core::fmt::rt::Argument<'_>", ptr %args, i64 0
  call void @llvm.memcpy.p0.p0.i64(ptr align 8 %0, ptr align 8 %_7, i64 16, i1 false)
; call core::fmt::Arguments::new
  %1 = call { ptr, ptr } @_ZN4core3fmt9Arguments3new17h09d46958d5538fe4E(ptr align 1 @alloc_0c812808379efded5a4fb82d2790b556, ptr align 8 %args) #11
  %_3.0 = extractvalue { ptr, ptr } %1, 0
  %_3.1 = extractvalue { ptr, ptr } %1, 1
; call alloc::fmt::format
  call void @_ZN5alloc3fmt6format17he914d7ae6f87a36bE(ptr sret([24 x i8]) align 8 %_2, ptr %_3.0, ptr %_3.1) #11
  call void @llvm.memcpy.p0.p0.i64(ptr align 8 %_1, ptr align 8 %_2, i64 24, i1 false)
; call core::ptr::drop_in_place<alloc::string::String>
  call void @"_ZN4core3ptr42drop_in_place$LT$alloc..string..String$GT$17hca470dd8a6ee50b2E"(ptr align 8 %_1)
  ret void
}

; <T as alloc::slice::<impl [T]>::to_vec_in::ConvertVec>::to_vec
; Function Attrs: inlinehint nonlazybind uwtable
define void @"_ZN87_$LT$T$u20$as$u20$alloc..slice..$LT$impl$u20$$u5b$T$u5d$$GT$..to_vec_in..ConvertVec$GT$6to_vec17he9d278d3e0c1a96fE"(ptr sret([24 x i8]) align 8 %v, ptr align 1 %s.0, i64 %s.1) unnamed_addr #1 {
start:
  %_17 = alloca [8 x i8], align 8
; call alloc::raw_vec::RawVecInner<A>::with_capacity_in
  %0 = call { i64, ptr } @"_ZN5alloc7raw_vec20RawVecInner$LT$A$GT$16with_capacity_in17hcd5922f511436fb7E"(i64 %s.1, i64 1, i64 1) #11
  %_10.0 = extractvalue { i64, ptr } %0, 0
  %_10.1 = extractvalue { i64, ptr } %0, 1
  store i64 %_10.0, ptr %v, align 8
  %1 = getelementptr inbounds i8, ptr %v, i64 8
  store ptr %_10.1, ptr %1, align 8
  %2 = getelementptr inbounds i8, ptr %v, i64 16
  store i64 0, ptr %2, align 8
  %_4 = icmp ugt i64 %s.1, 0
  br i1 %_4, label %bb1, label %bb2

bb2:                                              ; preds = %bb9, %start
  ret void

bb1:                                              ; preds = %start
  %3 = getelementptr inbounds i8, ptr %v, i64 8
  %_12 = load ptr, ptr %3, align 8
  br label %bb4

bb4:                                              ; preds = %bb1
; call core::ptr::copy_nonoverlapping::precondition_check
  call void @_ZN4core3ptr19copy_nonoverlapping18precondition_check17h28c7bd6518e37314E(ptr %s.0, ptr %_12, i64 1, i64 1, i64 %s.1, ptr align 8 @alloc_37f6e60a2902ea1334fb3e649d7c5a34) #16
  br label %bb6

bb6:                                              ; preds = %bb4
  %4 = mul i64 %s.1, 1
  call void @llvm.memcpy.p0.p0.i64(ptr align 1 %_12, ptr align 1 %s.0, i64 %4, i1 false)
  br label %bb7

bb7:                                              ; preds = %bb6
  br label %bb12

bb12:                                             ; preds = %bb7
  %self = load i64, ptr %v, align 8
  store i64 %self, ptr %_17, align 8
  br label %bb10

bb10:                                             ; preds = %bb12
  %5 = load i64, ptr %_17, align 8
; call alloc::vec::Vec<T,A>::set_len::precondition_check
  call void @"_ZN5alloc3vec16Vec$LT$T$C$A$GT$7set_len18precondition_check17hcc36620b3f7c10a1E"(i64 %s.1, i64 %5, ptr align 8 @alloc_490992312822afe82cb6f17d9c546139) #16
  br label %bb9

bb9:                                              ; preds = %bb10
  %6 = getelementptr inbounds i8, ptr %v, i64 16
  store i64 %s.1, ptr %6, align 8
  br label %bb2

bb11:                                             ; No predecessors!
  unreachable
}

; <isize as core::fmt::LowerExp>::fmt
; Function Attrs: nonlazybind uwtable
declare zeroext i1 @_RNvXsD_NtNtNtCsgEmfK2I1SDS_4core3fmt3num3impiNtB9_8LowerExp3fmt(ptr align 8, ptr align 8) unnamed_addr #3

; Function Attrs: nocallback nofree nounwind willreturn memory(argmem: readwrite)
declare void @llvm.memcpy.p0.p0.i64(ptr noalias writeonly captures(none), ptr noalias readonly captures(none), i64, i1 immarg) #4

; Function Attrs: nounwind nonlazybind uwtable
declare i32 @rust_eh_personality(i32, i32, i64, ptr, ptr) unnamed_addr #5

; core::panicking::panic_cannot_unwind
; Function Attrs: cold minsize noinline noreturn nounwind nonlazybind optsize uwtable
declare void @_RNvNtCsgEmfK2I1SDS_4core9panicking19panic_cannot_unwind() unnamed_addr #6

; core::panicking::panic_nounwind_fmt
; Function Attrs: cold noinline noreturn nounwind nonlazybind uwtable
declare void @_RNvNtCsgEmfK2I1SDS_4core9panicking18panic_nounwind_fmt(ptr, ptr, i1 zeroext, ptr align 8) unnamed_addr #7

; <alloc::vec::Vec<u8> as core::ops::drop::Drop>::drop
; Function Attrs: nonlazybind uwtable
declare void @_RNvXso_NtCslNYArtu3iFV_5alloc3vecINtB5_3VechENtNtNtCsgEmfK2I1SDS_4core3ops4drop4Drop4dropCsduwmD7cSIQq_5gimli(ptr align 8) unnamed_addr #3

; core::panicking::panic_in_cleanup
; Function Attrs: cold minsize noinline noreturn nounwind nonlazybind optsize uwtable
declare void @_RNvNtCsgEmfK2I1SDS_4core9panicking16panic_in_cleanup() unnamed_addr #6

; <alloc::raw_vec::RawVec<u8> as core::ops::drop::Drop>::drop
; Function Attrs: nonlazybind uwtable
declare void @_RNvXs1_NtCslNYArtu3iFV_5alloc7raw_vecINtB5_6RawVechENtNtNtCsgEmfK2I1SDS_4core3ops4drop4Drop4dropCsduwmD7cSIQq_5gimli(ptr align 8) unnamed_addr #3

; Function Attrs: nocallback nocreateundeforpoison nofree nosync nounwind speculatable willreturn memory(none)
declare i64 @llvm.ctpop.i64(i64) #8

; core::panicking::panic_fmt
; Function Attrs: cold noinline noreturn nonlazybind uwtable
declare void @_RNvNtCsgEmfK2I1SDS_4core9panicking9panic_fmt(ptr, ptr, ptr align 8) unnamed_addr #9

; Function Attrs: nocallback nocreateundeforpoison nofree nosync nounwind speculatable willreturn memory(none)
declare { i64, i1 } @llvm.umul.with.overflow.i64(i64, i64) #8

; core::panicking::panic_nounwind
; Function Attrs: cold noinline noreturn nounwind nonlazybind uwtable
declare void @_RNvNtCsgEmfK2I1SDS_4core9panicking14panic_nounwind(ptr align 1, i64) unnamed_addr #7

; alloc::fmt::format::format_inner
; Function Attrs: nonlazybind uwtable
declare void @_RNvNvNtCslNYArtu3iFV_5alloc3fmt6format12format_inner(ptr sret([24 x i8]) align 8, ptr, ptr) unnamed_addr #3

; <alloc::raw_vec::RawVecInner>::try_allocate_in
; Function Attrs: nonlazybind uwtable
declare void @_RNvMs4_NtCslNYArtu3iFV_5alloc7raw_vecNtB5_11RawVecInner15try_allocate_inCsduwmD7cSIQq_5gimli(ptr sret([24 x i8]) align 8, i64, i1 zeroext, i64, i64) unnamed_addr #3

; alloc::raw_vec::handle_error
; Function Attrs: cold minsize noreturn nonlazybind optsize uwtable
declare void @_RNvNtCslNYArtu3iFV_5alloc7raw_vec12handle_error(i64, i64) unnamed_addr #10

attributes #0 = { cold nounwind nonlazybind uwtable "probe-stack"="inline-asm" "target-cpu"="x86-64" }
attributes #1 = { inlinehint nonlazybind uwtable "probe-stack"="inline-asm" "target-cpu"="x86-64" }
attributes #2 = { inlinehint nounwind nonlazybind uwtable "probe-stack"="inline-asm" "target-cpu"="x86-64" }
attributes #3 = { nonlazybind uwtable "probe-stack"="inline-asm" "target-cpu"="x86-64" }
attributes #4 = { nocallback nofree nounwind willreturn memory(argmem: readwrite) }
attributes #5 = { nounwind nonlazybind uwtable "probe-stack"="inline-asm" "target-cpu"="x86-64" }
attributes #6 = { cold minsize noinline noreturn nounwind nonlazybind optsize uwtable "probe-stack"="inline-asm" "target-cpu"="x86-64" }
attributes #7 = { cold noinline noreturn nounwind nonlazybind uwtable "probe-stack"="inline-asm" "target-cpu"="x86-64" }
attributes #8 = { nocallback nocreateundeforpoison nofree nosync nounwind speculatable willreturn memory(none) }
attributes #9 = { cold noinline noreturn nonlazybind uwtable "probe-stack"="inline-asm" "target-cpu"="x86-64" }
attributes #10 = { cold minsize noreturn nonlazybind optsize uwtable "probe-stack"="inline-asm" "target-cpu"="x86-64" }
attributes #11 = { inlinehint }
attributes #12 = { cold noreturn nounwind }
attributes #13 = { noinline noreturn nounwind }
attributes #14 = { cold }
attributes #15 = { noinline noreturn }
attributes #16 = { inlinehint nounwind }
attributes #17 = { noreturn }

!llvm.module.flags = !{!0, !1}
!llvm.ident = !{!2}

!0 = !{i32 8, !"PIC Level", i32 2}
!1 = !{i32 2, !"RtLibUseGOT", i32 1}
!2 = !{!"rustc version 1.95.0 (59807616e 2026-04-14)"}
