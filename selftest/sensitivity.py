#!/usr/bin/env python3
"""Sensitivity self-test: break (or harmlessly refactor) the repository in a
scratch copy, run the quick checks against the copy, compare with the
expectation in mutations.json. The scratch copy lives outside /repo and
/verif and is deleted afterwards."""
import json, os, shutil, subprocess, sys, tempfile, time

ROOT = os.path.dirname(os.path.dirname(os.path.abspath(__file__)))
muts = json.load(open(os.path.join(ROOT, "selftest", "mutations.json")))
only = set(sys.argv[1:])
scratch = tempfile.mkdtemp(prefix="dsym-sens-", dir="/tmp")
copy = os.path.join(scratch, "repo")
results = []
try:
    subprocess.check_call(["git", "-C", "/repo", "worktree", "add", "--detach", "-f", copy, "HEAD"], stdout=subprocess.DEVNULL, stderr=subprocess.DEVNULL)
    # carry over uncommitted edits of /repo's working tree (the checks look at the working tree)
    diff = subprocess.run(["git", "-C", "/repo", "diff", "HEAD"], capture_output=True).stdout
    if diff.strip():
        subprocess.run(["git", "-C", copy, "apply"], input=diff, check=True)
    base_state = subprocess.run(["git", "-C", copy, "diff"], capture_output=True).stdout
    for m in muts:
        if only and m["name"] not in only:
            continue
        path = os.path.join(copy, m["file"])
        src = open(path).read()
        if m["old"] not in src:
            results.append((m["name"], "SKIP: anchor not found"))
            continue
        open(path, "w").write(src.replace(m["old"], m["new"], 1))
        row = [m["name"], m["kind"]]
        ok = True
        for prop in ("C16", "C17"):
            t = time.time()
            env = dict(os.environ, VERIF_REPO=copy)
            ev = os.path.join(ROOT, "work", "selftest", f"sens-{m['name']}-{prop}.json")
            os.makedirs(os.path.dirname(ev), exist_ok=True)
            p = subprocess.run([os.path.join(ROOT, "check"), prop, "--tier", "quick", "--evidence", ev], capture_output=True, text=True, env=env)
            viol = [l for l in p.stdout.splitlines() if l.startswith("VIOLATION")]
            cls = [l for l in p.stdout.splitlines() if l.startswith("violation:")]
            expect_fail = prop in m["expect"]
            got_fail = p.returncode == 1 and bool(viol)
            status = "detected" if got_fail else ("clean" if p.returncode == 0 else f"exit {p.returncode}")
            replay_ok = ""
            if got_fail:
                rp = viol[0].split("replay=")[1].strip()
                q = subprocess.run([os.path.join(ROOT, "check"), "--replay", rp], capture_output=True, text=True, env=env)
                replay_ok = " replay:" + ("reproduces" if q.returncode == 1 else f"exit{q.returncode}")
                if q.returncode != 1:
                    ok = False
                try:
                    if "/replays/known/" not in rp:  # never touch committed regression replays
                        os.remove(rp)
                except OSError:
                    pass
            if expect_fail != got_fail:
                ok = False
            row.append(f"{prop}:{status}{replay_ok} ({time.time()-t:.0f}s) {cls[0][:110] if cls else ''}")
        row.append("OK" if ok else "UNEXPECTED")
        results.append(tuple(row))
        print(" | ".join(row), flush=True)
        open(path, "w").write(src)
finally:
    subprocess.run(["git", "-C", "/repo", "worktree", "remove", "--force", copy], stdout=subprocess.DEVNULL, stderr=subprocess.DEVNULL)
    shutil.rmtree(scratch, ignore_errors=True)
    for d in os.listdir(os.path.join(ROOT, "work")):
        if d.startswith("sim-"):
            shutil.rmtree(os.path.join(ROOT, "work", d), ignore_errors=True)
bad = [r for r in results if r[-1] != "OK"]
print(f"{len(results)} mutations, {len(bad)} unexpected")
sys.exit(1 if bad else 0)
