#!/usr/bin/env python3
"""Seam fidelity (informational; uses kernel entropy the simulator does not
control, so it is never part of a registered check): a build WITHOUT the
getrandom interposer runs simplify on the corpus covers 50 times per input;
every output it shows must be among the outputs the simulator produces for
that input under 500 simulated key pairs."""
import os, subprocess, sys
ROOT = os.path.dirname(os.path.dirname(os.path.abspath(__file__)))
env = dict(os.environ, CARGO_NET_OFFLINE="true", VERIF_ROOT=ROOT)
def build(feat, tdir):
    cmd = ["cargo", "build", "--release", "--offline", "--manifest-path", f"{ROOT}/sim/Cargo.toml", "--target-dir", f"{ROOT}/sim/{tdir}"] + feat
    subprocess.check_call(cmd, env=dict(env, RUSTFLAGS=""), stdout=subprocess.DEVNULL, stderr=subprocess.DEVNULL)
    return f"{ROOT}/sim/{tdir}/release/dsym_sim"
sim = build([], "target-off")
real = build(["--features", "real_entropy"], "target-real")
def sets(binary, reps):
    out = subprocess.run([binary, "fidelity", "22", str(reps)], capture_output=True, text=True, env=env).stdout.splitlines()
    print(out[0])
    return {l.split()[0]: set(l.split()[1:]) for l in out[1:]}
s = sets(sim, 500)
r = sets(real, 50)
bad = 0
for k in sorted(r, key=int):
    extra = r[k] - s.get(k, set())
    print(f"input {k}: production showed {len(r[k])} distinct outputs, simulator {len(s.get(k,()))}; not seen in simulation: {len(extra)}")
    # a production output the simulator has not produced is not an error by itself (500 keys sample), only reported
    bad += len(extra)
print("outputs seen in production but not in 500 simulated keys:", bad)
